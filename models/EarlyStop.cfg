CONSTANT L = 3
INIT Init
NEXT Next
INVARIANT AtMostMaxEpochs
INVARIANT StopsExactlyWhenDocumented
INVARIANT BestIsArgMin
