------------------------- MODULE EarlyStopTies -------------------------
(* fit_to_data's early-stopping / best-parameter protocol when validation losses may REPEAT
   (property C16 quantifies over "any sequence of losses"; EarlyStop.tla covers distinct values).
   With ties the statement leaves two things open, and the model is non-deterministic exactly there:
     - "epochs since the best validation loss" may count from the first or from the last epoch that
       attained the minimum: `reading` (1 = first, 2 = last) is chosen once per run in Init and the
       stopping rule is then the statement's, read that way, at EVERY epoch of the run (a run that
       stops too late for the first reading and too early for the last satisfies neither);
     - "the parameters that achieved the minimum" may be those of any epoch attaining it.
   The next loss is any value of 1..V (repetition allowed); the history is part of the state, so the
   graph is a forest. checks/c16.py runs the real fit_to_data on every loss word of the model and
   requires the observed behaviour to be ONE OF the model's behaviours for that word (trace inclusion). *)
EXTENDS Naturals, Sequences, FiniteSets
CONSTANTS L, V
VARIABLES maxEpochs, patience, reading, vals, stopped, version, best, hist

vars == <<maxEpochs, patience, reading, vals, stopped, version, best, hist>>  \* hist: the choices of best so far (keeps the graph a forest)

Min(s) == CHOOSE m \in {s[i] : i \in 1..Len(s)} : \A j \in 1..Len(s) : m <= s[j]
ArgMins(s) == {i \in 1..Len(s) : s[i] = Min(s)}
First(S) == CHOOSE i \in S : \A j \in S : i <= j
Last(S) == CHOOSE i \in S : \A j \in S : i >= j
SinceFirst(s) == Len(s) - First(ArgMins(s))
SinceLast(s) == Len(s) - Last(ArgMins(s))
Prefix(s, n) == SubSeq(s, 1, n)
Since(s) == IF reading = 1 THEN SinceFirst(s) ELSE SinceLast(s)

Init == /\ maxEpochs \in 0..L
        /\ patience \in 0..L
        /\ reading \in {1, 2}
        /\ vals = <<>>
        /\ stopped = FALSE
        /\ version = 0
        /\ best = 0
        /\ hist = <<>>

Epoch(v) == /\ ~stopped
            /\ Len(vals) < maxEpochs
            /\ vals' = Append(vals, v)
            /\ version' = version + 1
            /\ LET new == Append(vals, v) IN
               /\ best' \in IF Len(vals) = 0 \/ v < Min(vals) THEN {version + 1}
                            ELSE IF v = Min(vals) THEN {best, version + 1}
                            ELSE {best}
               /\ stopped' = (Since(new) > patience)
            /\ hist' = Append(hist, best')
            /\ UNCHANGED <<maxEpochs, patience, reading>>

Next == \E v \in 1..V : Epoch(v)

Spec == Init /\ [][Next]_vars

(* ---- the property over histories with ties ---- *)
AtMostMaxEpochs == Len(vals) <= maxEpochs /\ version = Len(vals)

StopsExactlyWhenDocumented ==
    /\ stopped => /\ Len(vals) > 0
                  /\ Since(vals) > patience
                  /\ \A n \in 1..(Len(vals) - 1) : Since(Prefix(vals, n)) <= patience
    /\ (~stopped) => \A n \in 1..Len(vals) : Since(Prefix(vals, n)) <= patience

BestAttainsMin == IF Len(vals) = 0 THEN best = 0 ELSE best \in ArgMins(vals)
=============================================================================
