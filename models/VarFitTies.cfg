CONSTANT L = 3
CONSTANT V = 2
INIT Init
NEXT Next
INVARIANT ExactlyOneLossPerStep
INVARIANT BestAttainsMin
