---------------------------- MODULE EarlyStop ----------------------------
(* The early-stopping / best-parameter protocol of fit_to_data (property C16).
   The next validation loss is chosen non-deterministically among the unused values
   of 1..L, so the loss history is part of the state and the reachable graph is a
   forest: one tree per (maxEpochs, patience) configuration. "version" counts the
   optimiser updates (in epochs) the current parameters have received; "best" is
   the version stored as best so far. Every maximal path of the dumped graph is
   replayed against the real fit_to_data by checks/c16.py. *)
EXTENDS Naturals, Sequences, FiniteSets
CONSTANT L
VARIABLES maxEpochs, patience, vals, stopped, version, best

vars == <<maxEpochs, patience, vals, stopped, version, best>>

Range(s) == {s[i] : i \in 1..Len(s)}
ArgMin(s) == CHOOSE i \in 1..Len(s) : \A j \in 1..Len(s) : s[i] <= s[j]
Fruitless(s) == Len(s) - ArgMin(s)
Prefix(s, n) == SubSeq(s, 1, n)

Init == /\ maxEpochs \in 0..L
        /\ patience \in 0..L
        /\ vals = <<>>
        /\ stopped = FALSE
        /\ version = 0
        /\ best = 0

Epoch(v) == /\ ~stopped
            /\ Len(vals) < maxEpochs
            /\ v \notin Range(vals)
            /\ vals' = Append(vals, v)
            /\ version' = version + 1
            /\ best' = IF \A u \in Range(vals) : v < u THEN version + 1 ELSE best
            /\ stopped' = /\ ~(\A u \in Range(vals) : v < u)
                          /\ Fruitless(Append(vals, v)) > patience
            /\ UNCHANGED <<maxEpochs, patience>>

Next == \E v \in 1..L : Epoch(v)

Spec == Init /\ [][Next]_vars

(* ---- the property, stated declaratively over the history ---- *)
AtMostMaxEpochs == Len(vals) <= maxEpochs /\ version = Len(vals)

StopsExactlyWhenDocumented ==
    /\ stopped => /\ Len(vals) > 0
                  /\ Fruitless(vals) > patience
                  /\ \A n \in 1..(Len(vals) - 1) : Fruitless(Prefix(vals, n)) <= patience
    /\ (~stopped) => \A n \in 1..Len(vals) : Fruitless(Prefix(vals, n)) <= patience

BestIsArgMin == IF Len(vals) = 0 THEN best = 0 ELSE best = ArgMin(vals)

Terminal == stopped \/ Len(vals) = maxEpochs
=============================================================================
