CONSTANT L = 3
CONSTANT V = 2
INIT Init
NEXT Next
INVARIANT AtMostMaxEpochs
INVARIANT StopsExactlyWhenDocumented
INVARIANT BestAttainsMin
