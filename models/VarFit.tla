------------------------------ MODULE VarFit ------------------------------
(* The step / best-parameter protocol of fit_to_variational_target (property C16).
   "version" = number of optimiser updates applied to the current parameters.
   The loss recorded at a step is evaluated at the PRE-update parameters, so the
   parameters "at which the minimum recorded loss was evaluated" are the version
   before that step's update. *)
EXTENDS Naturals, Sequences, FiniteSets
CONSTANT L
VARIABLES steps, losses, version, best

vars == <<steps, losses, version, best>>

Range(s) == {s[i] : i \in 1..Len(s)}
ArgMin(s) == CHOOSE i \in 1..Len(s) : \A j \in 1..Len(s) : s[i] <= s[j]

Init == /\ steps \in 0..L
        /\ losses = <<>>
        /\ version = 0
        /\ best = 0

Step(v) == /\ Len(losses) < steps
           /\ v \notin Range(losses)
           /\ losses' = Append(losses, v)
           /\ best' = IF \A u \in Range(losses) : v < u THEN version ELSE best
           /\ version' = version + 1
           /\ UNCHANGED steps

Next == \E v \in 1..L : Step(v)
Spec == Init /\ [][Next]_vars

ExactlyOneLossPerStep == Len(losses) = version /\ version <= steps
BestIsWhereMinWasEvaluated == IF Len(losses) = 0 THEN best = 0 ELSE best = ArgMin(losses) - 1
=============================================================================
