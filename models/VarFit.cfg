CONSTANT L = 3
INIT Init
NEXT Next
INVARIANT ExactlyOneLossPerStep
INVARIANT BestIsWhereMinWasEvaluated
