---------------------------- MODULE VarFitTies ----------------------------
(* fit_to_variational_target when recorded losses may repeat: "the parameters at which the minimum
   recorded loss was evaluated" may be those of any step attaining the minimum (non-deterministic on a
   tie). Replayed against the real loop by trace inclusion, see EarlyStopTies.tla. *)
EXTENDS Naturals, Sequences, FiniteSets
CONSTANTS L, V
VARIABLES steps, losses, version, best, hist

vars == <<steps, losses, version, best, hist>>  \* hist: the choices of best so far (keeps the graph a forest)

Min(s) == CHOOSE m \in {s[i] : i \in 1..Len(s)} : \A j \in 1..Len(s) : m <= s[j]
ArgMins(s) == {i \in 1..Len(s) : s[i] = Min(s)}

Init == /\ steps \in 0..L
        /\ losses = <<>>
        /\ version = 0
        /\ best = 0
        /\ hist = <<>>

Step(v) == /\ Len(losses) < steps
           /\ losses' = Append(losses, v)
           /\ best' \in IF Len(losses) = 0 \/ v < Min(losses) THEN {version}
                        ELSE IF v = Min(losses) THEN {best, version}
                        ELSE {best}
           /\ version' = version + 1
           /\ hist' = Append(hist, best')
           /\ UNCHANGED steps

Next == \E v \in 1..V : Step(v)
Spec == Init /\ [][Next]_vars

ExactlyOneLossPerStep == Len(losses) = version /\ version <= steps
BestAttainsMin == IF Len(losses) = 0 THEN best = 0 ELSE (best + 1) \in ArgMins(losses)
=============================================================================
