"""C15 - fit_to_data never loses, duplicates or misaligns data.

Every (n, batch_size, val_prop, condition?, epochs, key) inside the bound is run through the REAL
fit_to_data with tagged rows (x[i] = i, condition[i] = 1000 + i). The user-supplied loss records the
exact rows and key of every call through ordered host callbacks (traced call = training step,
concrete call = validation pass); the user-supplied optimiser records every gradient update."""
import hashlib
import json

PROPERTY = "C15"
HORIZON_S = {"quick": 900.0, "thorough": 3600.0}
RULE = (
    "state = (n, with/without condition) x (batch_size, val_prop, epochs, key); transition = one full "
    "fit_to_data run whose complete call history (rows, condition rows, keys, update marks) is judged; "
    "non-trivial = run with >=2 training batches in an epoch or a dropped remainder"
)
ASSUMPTIONS = [
    "sizes of the two parts are read from train_val_split itself and only required to be non-empty and within one row of val_prop*n (rounding mode is not part of the property)",
    "a traced loss call is a training step and a concrete one a validation call (true for a plain-Python user loss)",
]
VAL_PROPS = [0.05, 0.1, 0.25, 1 / 3, 0.5, 0.75, 0.9]


def bounds(tier):
    return {
        "n": "2..20" if tier == "quick" else "2..60",
        "batch_size": "1..n+5",
        "val_prop": VAL_PROPS,
        "epochs": [1, 2] if tier == "quick" else [1, 2, 3, 4],
        "keys": 1 if tier == "quick" else 2,
        "condition": [False, True, "integer-typed x and condition (ids above 2**24) for n in {5,12,20}"],
        "exhaustive_within_bounds": True,
    }


def enumerate_cases(tier, seed):
    nmax = 20 if tier == "quick" else 60
    cases = []
    for n in range(2, nmax + 1):
        for cond in (False, True):
            cases.append({"id": f"n={n}|cond={int(cond)}", "n": n, "cond": cond, "tier": tier, "seed": seed})
    # integer-typed datasets (ids, counts, timestamps): rows must reach the loss with their own dtype and exact values; condition ids
    # lie above 2**24, where float32 cannot tell neighbours apart
    for n in ([5, 12, 20] if tier == "quick" else [5, 12, 20, 33, 60]):
        cases.append({"id": f"n={n}|cond=int-typed", "n": n, "cond": 2, "tier": tier, "seed": seed})
    # longest first for load balance
    cases.sort(key=lambda c: -c["n"])
    return cases


_ENV = {}


def _env():
    if _ENV:
        return _ENV
    import equinox as eqx
    import jax
    import jax.numpy as jnp
    import numpy as np
    import optax

    events = []

    class M(eqx.Module):
        w: jax.Array

    def _rec(kind, x, c, k):
        events.append((kind, np.asarray(x).copy(), np.asarray(c).copy(), tuple(np.asarray(k).ravel().tolist())))

    def loss_fn(params, static, x, condition=None, key=None):
        m = eqx.combine(params, static)
        c = condition if condition is not None else jnp.zeros((0,))
        if isinstance(x, jax.core.Tracer):
            jax.debug.callback(lambda x, c, k: _rec("train", x, c, k), x, c, key, ordered=True)
        else:
            _rec("val", x, c, key)
        return jnp.sum(m.w**2) + 0.0 * jnp.sum(x)

    def _update(grads, state, params=None):
        jax.debug.callback(lambda: events.append(("update",)), ordered=True)
        return jax.tree_util.tree_map(lambda g: -0.1 * g, grads), state

    _ENV.update(events=events, M=M, loss_fn=loss_fn, opt=optax.GradientTransformation(lambda p: (), _update),
                jax=jax, jnp=jnp, np=np)
    return _ENV


def one_run(env, n, bs, vp, cond, epochs, keyint):
    from flowjax.train import fit_to_data

    jax, jnp, np = env["jax"], env["jnp"], env["np"]
    ev = env["events"]
    ev.clear()
    x = jnp.arange(float(n))[:, None]
    c = (1000.0 + jnp.arange(float(n)))[:, None] if cond else None
    if cond == 2:
        x = jnp.arange(n, dtype=jnp.int32)[:, None]
        c = (16777217 + 2 * jnp.arange(n, dtype=jnp.int32))[:, None]
    key = jax.random.PRNGKey(keyint)
    dist, losses = fit_to_data(
        key, env["M"](jnp.ones(2)), x, condition=c, loss_fn=env["loss_fn"], max_epochs=epochs, max_patience=1000,
        batch_size=bs, val_prop=vp, optimizer=env["opt"], return_best=False, show_progress=False,
    )
    jax.effects_barrier()
    hist = list(ev)
    ev.clear()
    return hist, losses, tuple(np.asarray(key).ravel().tolist())


def judge(hist, losses, n, bs, vp, cond, epochs, n_train, inkey):
    """Returns list of (tag, message)."""
    bad = []
    n_val = n - n_train
    bt, bv = min(bs, n_train), min(bs, n_val)
    nbt, nbv = n_train // bt, n_val // bv
    per_epoch = nbt * 2 + nbv
    if len(hist) != per_epoch * epochs:
        bad.append(("call-count", f"{len(hist)} recorded events, expected {per_epoch}*{epochs}"))
        return bad, {}
    keys = []
    T, V = set(), set()
    Ts, Vs = [], []
    for e in range(epochs):
        seg = hist[e * per_epoch:(e + 1) * per_epoch]
        kinds = [s[0] for s in seg]
        if kinds != ["train", "update"] * nbt + ["val"] * nbv:
            bad.append(("call-order", f"epoch {e}: {kinds}"))
            return bad, {}
        te, ve = [], []
        for s in seg:
            if s[0] == "update":
                continue
            _, xb, cb, k = s
            keys.append(k)
            size = bt if s[0] == "train" else bv
            if xb.shape[0] != size:
                bad.append(("batch-size", f"epoch {e} {s[0]} batch has {xb.shape[0]} rows, expected {size}"))
            tags = [float(v) for v in xb[:, 0]]
            if cond == 2:
                if xb.dtype.kind not in "iu" or cb.dtype.kind not in "iu":
                    bad.append(("dtype-changed", f"epoch {e} {s[0]}: integer dataset reached the loss as x {xb.dtype}, condition {cb.dtype}"))
                if [16777217 + 2 * int(t) for t in tags] != [int(v) for v in cb[:, 0]]:
                    bad.append(("misaligned", f"epoch {e} {s[0]}: x rows {tags} paired with condition ids {[int(v) for v in cb[:, 0]]} (own ids are 16777217 + 2 row)"))
            elif cond:
                ctags = [float(v) for v in cb[:, 0]]
                if [t + 1000.0 for t in tags] != ctags:
                    bad.append(("misaligned", f"epoch {e} {s[0]}: x rows {tags} paired with condition rows {ctags}"))
            (te if s[0] == "train" else ve).extend(tags)
        if len(set(te)) != len(te):
            bad.append(("duplicate-train-row", f"epoch {e}: training rows {sorted(te)}"))
        if len(set(ve)) != len(ve):
            bad.append(("duplicate-val-row", f"epoch {e}: validation rows {sorted(ve)}"))
        if n_train - len(te) >= bt:
            bad.append(("dropped-too-much", f"epoch {e}: {n_train - len(te)} training rows unused, batch {bt}"))
        Ts.append(set(te)); Vs.append(set(ve))
        T |= set(te); V |= set(ve)
    allrows = {float(i) for i in range(n)}
    if not (T | V) <= allrows:
        bad.append(("foreign-row", f"rows not in the dataset: {sorted((T | V) - allrows)}"))
    if T & V:
        bad.append(("val-row-in-gradient-step", f"rows used both for validation and in a gradient step: {sorted(T & V)}"))
    if len(T) > n_train or len(V) > n_val:
        bad.append(("split-not-constant", f"|train rows seen|={len(T)} (split has {n_train}), |val rows seen|={len(V)} (split has {n_val})"))
    if n_train % bt == 0 and n_val % bv == 0:
        for e in range(epochs):
            if Ts[e] | Vs[e] != allrows:
                bad.append(("row-lost", f"epoch {e}: rows never handed to the loss: {sorted(allrows - (Ts[e] | Vs[e]))}"))
                break
    if n_train % bt == 0 and any(t != Ts[0] for t in Ts):
        bad.append(("split-not-constant", "training set differs between epochs"))
    if len(set(keys)) != len(keys):
        bad.append(("key-reuse", f"{len(keys) - len(set(keys))} repeated keys among {len(keys)} loss calls"))
    if inkey in keys:
        bad.append(("key-reuse", "the caller's key was handed to the loss unsplit"))
    if len(losses["train"]) != epochs or len(losses["val"]) != epochs:
        bad.append(("loss-count", f"train {len(losses['train'])} val {len(losses['val'])} for {epochs} epochs"))
    info = {"nbt": nbt, "dropped": n_train - nbt * bt, "order0": sorted(Ts[0]) != list(Ts[0])}
    return bad, info


def run_case(case):
    from flowjax.train.train_utils import train_val_split

    env = _env()
    jax, jnp = env["jax"], env["jnp"]
    n, cond, tier, seed = case["n"], case["cond"], case["tier"], case["seed"]
    epochs_list = [1, 2] if tier == "quick" else [1, 2, 3, 4]
    keyints = [seed * 7 + 1] if tier == "quick" else [seed * 7 + 1, seed * 7 + 2]
    viols, outcomes, digest_src = [], {}, []
    transitions = nontrivial = skipped = 0
    sample = None
    for vp in VAL_PROPS:
        parts = train_val_split(jax.random.PRNGKey(0), (jnp.zeros((n, 1)),), val_prop=vp)
        n_train = int(parts[0][0].shape[0])
        n_val = n - n_train
        if n_train < 1 or n_val < 1:
            skipped += 1
            continue
        if abs(n_val - vp * n) >= 1.0:
            viols.append({"sig": "C15|split-size", "msg": f"n={n} val_prop={vp}: validation part has {n_val} rows",
                          "detail": {"n": n, "val_prop": vp}})
            continue
        for bs in range(1, n + 6):
            for epochs in epochs_list:
                for ki, keyint in enumerate(keyints):
                    if ki > 0 and epochs != 2:
                        continue
                    hist, losses, inkey = one_run(env, n, bs, vp, cond, epochs, keyint)
                    transitions += 1
                    bad, info = judge(hist, losses, n, bs, vp, cond, epochs, n_train, inkey)
                    if epochs == 2 and bs in (1, 2, n):
                        # same key reproduces the same run
                        hist2, losses2, _ = one_run(env, n, bs, vp, cond, epochs, keyint)
                        transitions += 1
                        same = len(hist) == len(hist2) and all(
                            a[0] == b[0] and (a[0] == "update" or ((a[1] == b[1]).all() and a[3] == b[3]))
                            for a, b in zip(hist, hist2)
                        )
                        if not same:
                            bad.append(("not-reproducible", "same key gave a different call history"))
                    if info.get("nbt", 0) >= 2 or info.get("dropped", 0) > 0:
                        nontrivial += 1
                    o = f"nbt={min(info.get('nbt', -1), 3)},drop={int(info.get('dropped', 0) > 0)},bad={int(bool(bad))}"
                    outcomes[o] = outcomes.get(o, 0) + 1
                    digest_src.append([vp, bs, epochs, keyint, [h[0] if h[0] == "update" else [h[0], h[1][:, 0].tolist(), h[3]] for h in hist]])
                    if sample is None and epochs == 2 and bs == 2:
                        sample = {"n": n, "batch_size": bs, "val_prop": vp, "epochs": epochs,
                                  "history": [h[0] if h[0] == "update" else [h[0], h[1][:, 0].tolist()] for h in hist]}
                    for tag, msg in bad:
                        viols.append({
                            "sig": f"C15|{tag}|cond={int(cond)}",
                            "msg": f"n={n} batch_size={bs} val_prop={vp:.3g} epochs={epochs} key={keyint}: {msg}",
                            "detail": {"n": n, "batch_size": bs, "val_prop": vp, "epochs": epochs, "key": keyint, "cond": cond},
                        })
    # keep the violation list bounded per case (first of each signature + count)
    seen, kept = {}, []
    for v in viols:
        seen[v["sig"]] = seen.get(v["sig"], 0) + 1
        if seen[v["sig"]] <= 2:
            kept.append(v)
    for v in kept:
        v["msg"] += f"  [{seen[v['sig']]} runs with this signature in this case]"
    return {
        "transitions": transitions, "traces": transitions, "states": transitions, "nontrivial": nontrivial,
        "violations": kept, "outcomes": outcomes, "skipped": {"empty-part": skipped},
        "digest": hashlib.sha1(json.dumps(digest_src).encode()).hexdigest(), "sample": sample,
    }
