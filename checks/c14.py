"""C14 - methods are pure and transparent to jit, vmap and serialisation.

State = bijection expression | distribution | flow; transitions = for each method and input: eager call,
eqx.filter_jit(bound method), a jitted function re-used with DIFFERENT parameter values (stale-constant
probe), jax.vmap vs Python loop, repeated call, pytree flatten/unflatten, tree_serialise_leaves ->
tree_deserialise_leaves into a freshly constructed model with different parameters."""
import hashlib
import io

import numpy as np

PROPERTY = "C14"
HORIZON_S = {"quick": 1200.0, "thorough": 3000.0}
RULE = (
    "state = model (expression tree / named distribution / factory flow); transition = one comparison "
    "(jit vs eager, re-used jit vs eager on other parameters, vmap vs loop, call twice, flatten/unflatten, "
    "serialise round trip) for one method at one input; non-trivial = model with array parameters"
)
ASSUMPTIONS = [
    "jit / vmap vs eager agree to 1e-8 relative (float64; fused arithmetic differs in the last bits); repeated calls, flatten/unflatten and serialisation must be bit-identical",
]
METHODS = ["transform", "transform_and_log_det", "inverse", "inverse_and_log_det"]
RT = 1e-8


def bounds(tier):
    return {"expressions": "quick: every leaf class + two children per (combinator, semantic option) at depth<=1; thorough: all leaf configurations plus one per (kind, option, child class) at depth 1-2", "inputs_per_method": 4, "distributions": "10 named families + mixture + 8 factory configs x invert x cond",
            "exhaustive_within_bounds": True}


DISTS = ["Normal", "LogNormal", "MVN", "Uniform", "Gumbel", "Cauchy", "StudentT", "Laplace", "Exponential", "Logistic", "Mixture", "StandardNormal"]


def enumerate_cases(tier, seed):
    from checks import c01
    from mc import grammar as g

    specs, _ = g.enumerate_exprs(tier)
    maxd = 1 if tier == "quick" else 2
    sel = [s for s in specs if g.info(s).depth <= maxd]
    if tier == "quick":
        # tracing failures are per class: every leaf class, plus for every (combinator, semantic option) two different children
        seen, keep = {}, []
        for s_ in g._one_per_kind(sel):
            if "c" not in s_:
                keep.append(s_)
                continue
            key = (s_["k"], s_.get("mode"), s_.get("axis"), s_.get("cond_axis"), (s_.get("idx") or {}).get("t"))
            seen[key] = seen.get(key, 0) + 1
            if seen[key] <= 2:
                keep.append(s_)
        sel = keep
    if tier != "quick":
        sel = [s_ for s_ in sel if g.info(s_).depth == 0] + g._one_per_kind([s_ for s_ in sel if g.info(s_).depth >= 1])
    cases = [{"id": "expr|" + g.canon(s), "leg": "expr", "spec": s, "x64": True, "tier": tier, "seed": seed} for s in sel]
    for d in DISTS:
        cases.append({"id": f"dist|{d}", "leg": "dist", "dist": d, "x64": True, "tier": tier, "seed": seed})
    for x64 in (True, False):
        cases.append({"id": f"scalar-ctor|x64={int(x64)}", "leg": "scalars", "x64": x64, "tier": tier, "seed": seed})
    for f in c01.FACTORIES:
        for inv in (True, False):
            for cond in (None, 2):
                cases.append({"id": f"factory|{f}|invert={int(inv)}|cond={cond}", "leg": "dist", "factory": f, "invert": inv,
                              "cond": cond, "x64": True, "tier": tier, "seed": seed})
    cases.sort(key=lambda c: (0 if "factory" in c else 1, -len(c["id"])))
    return cases


def _close(a, b, rt=RT):
    a, b = np.asarray(a, float), np.asarray(b, float)
    if a.shape != b.shape:
        return False
    if not np.array_equal(np.isnan(a), np.isnan(b)):
        return False
    with np.errstate(invalid="ignore"):
        d = np.abs(a - b)
    ok = (np.isfinite(b) & (d <= rt * (1 + np.abs(b)))) | (a == b) | np.isnan(a)
    return bool(np.all(ok))


def _ident(a, b):
    import jax

    la, lb = jax.tree_util.tree_leaves(a), jax.tree_util.tree_leaves(b)
    return len(la) == len(lb) and all(np.asarray(x).shape == np.asarray(y).shape and np.array_equal(np.asarray(x), np.asarray(y), equal_nan=True) for x, y in zip(la, lb))


def _closetree(a, b):
    import jax

    la, lb = jax.tree_util.tree_leaves(a), jax.tree_util.tree_leaves(b)
    return len(la) == len(lb) and all(_close(x, y) for x, y in zip(la, lb))


def _roundtrip_serialise(model, fresh):
    import equinox as eqx

    buf = io.BytesIO()
    eqx.tree_serialise_leaves(buf, model)
    buf.seek(0)
    return eqx.tree_deserialise_leaves(buf, fresh)


def _expr(case, add):
    import equinox as eqx
    import jax
    import jax.numpy as jnp

    from mc import battery as bt
    from mc import grammar as g

    spec, seed = case["spec"], case["seed"]
    ii = g.info(spec)
    cls = g._cls(spec) + (":" + spec.get("idx", {}).get("t", "") if spec["k"] == "Partial" else "")
    b = g.build(spec, 0, 1, seed)
    b_other = g.build(spec, 3, 2, seed)  # the skeleton for deserialisation: other constructor arguments (salt) AND another parameter state
    if tuple(b.shape) != ii.shape:
        return 0, 0, None
    consts = bt.boundary_constants(b)
    c = bt.conditions(ii.cond_shape, np.float64, 2)[-1]
    cj = None if c is None else jnp.asarray(c)
    has_params = bool(jax.tree_util.tree_leaves(eqx.filter(b, eqx.is_inexact_array)))
    tr = 0
    sample = None
    flat, treedef = jax.tree_util.tree_flatten(b)
    b_flat = jax.tree_util.tree_unflatten(treedef, flat)
    try:
        b_ser = _roundtrip_serialise(b, b_other)
    except Exception as e:
        add(f"{cls}|serialise|raises|{type(e).__name__}", f"{cls}: serialise/deserialise raised {type(e).__name__}: {str(e)[:200]}")
        b_ser = None
    if b_ser is not None and jax.tree_util.tree_structure(b_ser) != treedef:
        add(f"{cls}|serialise|structure", f"{cls}: deserialised model has a different pytree structure / static fields")
    for m in METHODS:
        avail = ii.fwd if m.startswith("transform") else ii.inv
        codes = ii.dom if m.startswith("transform") else ii.cod
        if not avail or np.any(codes == "X"):
            continue
        X = bt.input_batch(codes, consts, np.float64, max_points=48)
        sel = sorted(set(np.linspace(0, X.shape[0] - 1, 4).round().astype(int).tolist()))
        X = jnp.asarray(X[sel])
        eager = [getattr(b, m)(x, cj) for x in X]
        tr += len(eager)
        # call twice
        again = getattr(b, m)(X[0], cj)
        tr += 1
        if not _ident(again, eager[0]):
            add(f"{cls}|call-twice|{m}", f"{cls}.{m}: two identical calls returned different results")
        # filter_jit of the bound method
        try:
            jf = eqx.filter_jit(getattr(b, m))
            for x, e in zip(X, eager):
                tr += 1
                if not _closetree(jf(x, cj), e):
                    add(f"{cls}|filter_jit|{m}|value", f"{cls}.{m}: jit {jax.tree_util.tree_map(np.asarray, jf(x, cj))} vs eager {jax.tree_util.tree_map(np.asarray, e)} at x={np.asarray(x).tolist()}")
                    break
        except Exception as e:
            add(f"{cls}|filter_jit|{m}|raises|{type(e).__name__}", f"{cls}.{m} under eqx.filter_jit raised {type(e).__name__}: {str(e)[:200]}")
        # one jitted function, two parameter values (stale trace constants)
        try:
            if not m.endswith("_and_log_det"):
                raise StopIteration
            jg = eqx.filter_jit(lambda mod, x, cc, m=m: getattr(mod, m)(x, cc))
            jg(b, X[0], cj)
            tr += 1
            if not _closetree(jg(b_other, X[1], cj), getattr(b_other, m)(X[1], cj)):
                add(f"{cls}|jit-reuse|{m}", f"{cls}.{m}: a jitted function re-used with other parameter values disagrees with eager (stale constant?)")
        except StopIteration:
            pass
        except Exception as e:
            add(f"{cls}|jit-reuse|{m}|raises|{type(e).__name__}", f"{cls}.{m}: {type(e).__name__}: {str(e)[:200]}")
        # vmap vs loop (over x, and over (x, condition) for conditional models)
        try:
            vm = jax.vmap(lambda x, m=m: getattr(b, m)(x, cj))(X)
            stacked = jax.tree_util.tree_map(lambda *a: jnp.stack(a), *eager)
            tr += 1
            if not _closetree(vm, stacked):
                add(f"{cls}|vmap|{m}", f"{cls}.{m}: jax.vmap over x differs from a Python loop")
            if cj is not None:
                C = jnp.stack([cj * (1 + 0.25 * i) for i in range(X.shape[0])])
                vm2 = jax.vmap(lambda x, cc, m=m: getattr(b, m)(x, cc))(X, C)
                loop2 = jax.tree_util.tree_map(lambda *a: jnp.stack(a), *[getattr(b, m)(x, cc) for x, cc in zip(X, C)])
                tr += 1
                if not _closetree(vm2, loop2):
                    add(f"{cls}|vmap-cond|{m}", f"{cls}.{m}: jax.vmap over (x, condition) differs from a Python loop")
        except Exception as e:
            add(f"{cls}|vmap|{m}|raises|{type(e).__name__}", f"{cls}.{m} under jax.vmap raised {type(e).__name__}: {str(e)[:200]}")
        for nm, other in (("flatten-unflatten", b_flat), ("serialise", b_ser)):
            if other is None:
                continue
            tr += 1
            try:
                if not _ident(getattr(other, m)(X[0], cj), eager[0]):
                    add(f"{cls}|{nm}|{m}", f"{cls}.{m}: result after {nm} is not bit-identical")
            except Exception as e:
                add(f"{cls}|{nm}|{m}|raises|{type(e).__name__}", f"{cls}.{m} after {nm}: {type(e).__name__}: {str(e)[:200]}")
        if sample is None:
            sample = {"model": cls, "method": m, "x": np.asarray(X[0]).tolist(), "eager": jax.tree_util.tree_map(lambda a: np.asarray(a).tolist(), eager[0])}
    return tr, tr if has_params else 0, sample


def build_dist(name, seed, level):
    import equinox as eqx
    import jax.numpy as jnp

    import flowjax.distributions as D
    from mc.params import perturb

    loc, sc = jnp.asarray([0.3, -1.2, 2.0]), jnp.asarray([0.7, 1.5, 0.2])
    d = {
        "Normal": lambda: D.Normal(loc, sc), "LogNormal": lambda: D.LogNormal(loc * 0.3, sc), "Gumbel": lambda: D.Gumbel(loc, sc),
        "Cauchy": lambda: D.Cauchy(loc, sc), "Laplace": lambda: D.Laplace(loc, sc), "Logistic": lambda: D.Logistic(loc, sc),
        "StudentT": lambda: D.StudentT(jnp.asarray([2.5, 4.0, 9.0]), loc, sc), "Uniform": lambda: D.Uniform(loc - 1, loc + sc),
        "Exponential": lambda: D.Exponential(sc), "StandardNormal": lambda: D.StandardNormal((2, 2)),
        "MVN": lambda: D.MultivariateNormal(loc, jnp.asarray([[1.0, 0.3, 0.0], [0.3, 2.0, -0.4], [0.0, -0.4, 0.5]])),
        "Mixture": lambda: D.VmapMixture(eqx.filter_vmap(D.Normal)(jnp.stack([loc, loc + 2]), jnp.stack([sc, sc * 2])), jnp.asarray([0.3, 1.2])),
    }[name]()
    return perturb(d, level, seed, scale=0.3) if name not in ("Uniform",) else d


def _dist(case, add):
    import equinox as eqx
    import jax
    import jax.numpy as jnp
    import jax.random as jr

    from checks import c01

    seed = case["seed"]
    if "factory" in case:
        name = f"factory:{case['factory']}|invert={int(case['invert'])}"
        d = c01.build_factory(case["factory"], case["invert"], case["cond"], seed, 1)
        d_other = c01.build_factory(case["factory"], case["invert"], case["cond"], seed + 1, 2)
        fi = c01.factory_info(case["factory"], case["invert"], case["cond"])
        can_lp, can_s = fi.inv, fi.fwd
        slow_lp, slow_s = fi.num_inv, fi.num_fwd
    else:
        name = case["dist"]
        d, d_other = build_dist(name, seed, 1), build_dist(name, seed + 1, 2)
        can_lp = can_s = True
        slow_lp = slow_s = False
    shape, cs = tuple(d.shape), d.cond_shape
    c = None if cs is None else jnp.asarray([0.4, -1.1])
    key = jr.PRNGKey(seed + 3)
    X = d.sample(key, (3,), c) if can_s else jr.normal(key, (3, *shape))
    if name == "Uniform":
        X = jnp.clip(X, d.minval + 1e-3, d.maxval - 1e-3)
    tr = 0
    d_flat = jax.tree_util.tree_unflatten(*reversed(jax.tree_util.tree_flatten(d)))
    d_ser = None
    try:
        d_ser = _roundtrip_serialise(d, d_other)
    except Exception as e:
        add(f"{name}|serialise|raises|{type(e).__name__}", f"{name}: serialise/deserialise raised {type(e).__name__}: {str(e)[:200]}")
    calls = {}
    if can_lp:
        calls["log_prob"] = lambda m, k: m.log_prob(X, c)
    if can_s:
        calls["sample"] = lambda m, k: m.sample(k, (2,), c)
        calls["sample_and_log_prob"] = lambda m, k: m.sample_and_log_prob(k, (2,), c)
    for mname, call in calls.items():
        eager = call(d, key)
        tr += 1
        if not _ident(call(d, key), eager):
            add(f"{name}|call-twice|{mname}", f"{name}.{mname}: same arguments and key gave different results")
        try:
            j = eqx.filter_jit(call)
            tr += 2
            if not _closetree(j(d, key), eager):
                add(f"{name}|filter_jit|{mname}|value", f"{name}.{mname}: jit differs from eager")
            if not _closetree(j(d_other, key), call(d_other, key)):
                add(f"{name}|jit-reuse|{mname}", f"{name}.{mname}: jitted function re-used with other parameters disagrees with eager")
        except Exception as e:
            add(f"{name}|filter_jit|{mname}|raises|{type(e).__name__}", f"{name}.{mname} under filter_jit: {type(e).__name__}: {str(e)[:200]}")
        for nm, other in (("flatten-unflatten", d_flat), ("serialise", d_ser)):
            if other is not None:
                tr += 1
                if not _ident(call(other, key), eager):
                    add(f"{name}|{nm}|{mname}", f"{name}.{mname}: result after {nm} is not bit-identical")
    if can_lp:
        try:
            vm = jax.vmap(lambda x: d.log_prob(x, c))(X)
            tr += 1
            if not _close(vm, jnp.stack([d.log_prob(x, c) for x in X])):
                add(f"{name}|vmap|log_prob", f"{name}.log_prob: vmap differs from loop")
        except Exception as e:
            add(f"{name}|vmap|log_prob|raises|{type(e).__name__}", f"{name}.log_prob under vmap: {type(e).__name__}: {str(e)[:200]}")
    if can_s and not slow_s:
        keys = jr.split(key, 3)
        vm = jax.vmap(lambda k: d.sample(k, (), c))(keys)
        tr += 1
        if not _close(vm, jnp.stack([d.sample(k, (), c) for k in keys])):
            add(f"{name}|vmap|sample", f"{name}.sample: vmap over keys differs from loop")
    return tr, tr, {"model": name, "x": np.asarray(X[0]).tolist()}


def _scalars(case, add):
    """Models built from PYTHON SCALARS (weak-typed inputs), evaluated on float16/float32/float64 inputs: the round
    trips must preserve dtype and value bit for bit."""
    import jax
    import jax.numpy as jnp

    import flowjax.bijections as B
    import flowjax.distributions as D

    def models(a, b):
        return {
            "Loc": B.Loc(a), "Scale": B.Scale(b), "Affine": B.Affine(a, b), "Chain(Loc,Tanh)": B.Chain([B.Loc(a), B.Tanh(())]),
            "Invert(Loc)": B.Invert(B.Loc(a)), "Loc(int)": B.Loc(jnp.arange(1)[0] + 2), "Normal": D.Normal(a, b), "StudentT": D.StudentT(3.0, a, b),
            "Uniform": D.Uniform(a - 1.0, a + b), "Exponential": D.Exponential(b), "LeakyTanh": B.LeakyTanh(2), "RQS": B.RationalQuadraticSpline(knots=2, interval=3),
            # saved with a non-integer max_val, loaded into a skeleton built from a Python int (as the BNAF default LeakyTanh(3) is)
            "LeakyTanh(2.5 -> int skeleton)": B.LeakyTanh(2.5 if a > 0 else 3),
        }

    tr = 0
    ms, fresh = models(0.3, 1.7), models(-0.9, 0.6)
    dts = [jnp.float16, jnp.float32] + ([jnp.float64] if jax.config.jax_enable_x64 else [])
    for name, m in ms.items():
        flat = jax.tree_util.tree_unflatten(*reversed(jax.tree_util.tree_flatten(m)))
        try:
            ser = _roundtrip_serialise(m, fresh[name])
        except Exception as e:
            add(f"scalar-ctor:{name}|serialise|raises|{type(e).__name__}", f"{name} built from Python scalars: serialise -> deserialise into a freshly built model raised {type(e).__name__}: {str(e)[:200]}")
            ser = None
        for dt, xv in [(d_, v_) for d_ in dts for v_ in (0.4, 2.2)]:
            x = jnp.asarray(xv, dt)
            calls = {"transform_and_log_det": lambda o: o.transform_and_log_det(x), "inverse_and_log_det": lambda o: o.inverse_and_log_det(x)} \
                if isinstance(m, B.AbstractBijection) else {"log_prob": lambda o: o.log_prob(x)}
            for cn, call in calls.items():
                ref = call(m)
                for nm, other in (("flatten-unflatten", flat), ("serialise", ser)):
                    if other is None:
                        continue
                    tr += 1
                    got = call(other)
                    la, lb = jax.tree_util.tree_leaves(got), jax.tree_util.tree_leaves(ref)
                    same = all(p.dtype == q.dtype and np.array_equal(np.asarray(p), np.asarray(q), equal_nan=True) for p, q in zip(la, lb))
                    if not same:
                        add(f"scalar-ctor:{name}|{nm}|{cn}", f"{name} built from Python scalars, input {jnp.dtype(dt).name}: {cn} after {nm} gives "
                                                               f"{[(str(p.dtype), np.asarray(p).tolist()) for p in la]} instead of {[(str(q.dtype), np.asarray(q).tolist()) for q in lb]}")
    return tr, tr, {"models": list(ms), "dtypes": [jnp.dtype(d).name for d in dts]}


def run_case(case):
    viols, seen = [], {}

    def add(sig, msg):
        seen[sig] = seen.get(sig, 0) + 1
        if seen[sig] <= 1:
            viols.append({"sig": "C14|" + sig, "msg": msg, "detail": {}})

    tr, nt, sample = {"expr": _expr, "dist": _dist, "scalars": _scalars}[case["leg"]](case, add)
    return {"transitions": tr, "traces": tr, "states": 1, "nontrivial": nt, "violations": viols,
            "outcomes": {f"{case['leg']}:{'ok' if not viols else 'BAD'}": 1},
            "digest": hashlib.sha1(repr(sample).encode()).hexdigest(), "sample": sample}
