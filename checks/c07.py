"""C07 - elementary bijections compute their documented functions.

Reference = independent float64 NumPy formulas written from the docstrings and the cited papers
(Durkan et al. eq. 4 for the spline; Rezende & Mohamed for the planar map). Round-trip and autodiff
checks are self-consistency checks; this one pins VALUES."""
import hashlib
import itertools
from math import prod

import numpy as np

PROPERTY = "C07"
HORIZON_S = {"quick": 600.0, "thorough": 1800.0}
RULE = (
    "state = (leaf class, constructor arguments incl. broadcast pairing / triangle / permutation / interval, knots, "
    "min_derivative); transition = transform at one (parameter level, input) compared with the NumPy reference; "
    "non-trivial = reference value differs from the input by > 1e-9 (the map is not the identity there)"
)
ASSUMPTIONS = [
    "parameters are read through documented attributes (loc, scale, triangular, params, x_pos, y_pos, derivatives) after flowjax.wrappers.unwrap; how they are parametrised is C11's business",
    "planar: u-hat is read from get_act_scale (its validity for every raw parameter value is judged by C11)",
    "agreement to 1e-11 relative (float64)",
]
RT = 1e-11


def bounds(tier):
    return {"affine_broadcast_pairs": 8, "permutations": "all of S_n for every shape with n<=4 elements (quick) / n<=6 (thorough: all 720 of S_6 on 4 shapes)",
            "spline": "knots {1,3,5} x interval {2,(-1,3),(1,5),(-5,-1)} x min_derivative {1e-3,0.5} x levels 0-2 x 2001-point lattice",
            "planar": "dim 1-3 x tanh / leaky slopes {0.1,1,3} x 5 parameter states x cond", "levels": [0, 1, 2],
            "exhaustive_within_bounds": True}


PAIRS = [((), ()), ((3,), ()), ((), (3,)), ((3,), (3,)), ((2, 1), (3,)), ((2, 3), (2, 3)), ((2, 3), ()), ((1, 3), (2, 1))]
SHAPES = [(), (1,), (2,), (3,), (2, 3), (3, 2), (1, 2), (2, 1, 2)]


def enumerate_cases(tier, seed):
    cases = []

    def add(kind, **kw):
        cases.append({"id": kind + "|" + "|".join(f"{k}={v}" for k, v in sorted(kw.items())), "kind": kind, "x64": True, "seed": seed,
                      "tier": tier, **kw})

    for i, _ in enumerate(PAIRS):
        add("Affine", pair=i)
    for s in SHAPES:
        for k in ("Loc", "Scale", "Exp", "SoftPlus", "Tanh", "Flip", "Identity"):
            add(k, shape=list(s))
        for mv in (0.5, 1, 3) + ((6, 10) if s in ((), (2,)) else ()):
            add("LeakyTanh", shape=list(s), max_val=mv)
        for cs in [(), (2,), (2, 3)]:
            add("AddCond", shape=list(s), cond=list(cs))
    for d in (1, 2, 3, 4):
        for lower in (True, False):
            add("TriAffine", dim=d, lower=lower)
    perm_shapes = [(1,), (2,), (3,), (4,), (2, 2), (1, 3), (3, 1), (2, 1, 2), (1, 1, 1)]
    if tier != "quick":
        perm_shapes += [(6,), (2, 3), (3, 2), (1, 2, 3), (5,)]
    for s in perm_shapes:
        add("Permute", shape=list(s))
    for knots in (1, 3, 5):
        for iv in (2, [-1, 3], [1, 5], [-5, -1]):
            for md in (1e-3, 0.5):
                add("RQS", knots=knots, interval=iv, min_derivative=md)
    for d in (1, 2, 3):
        for slope in (None, 0.1, 1.0, 3.0):
            for cond in (None, 2):
                add("Planar", dim=d, slope=slope, cond=cond)
    # float32 pass (the library's default dtype) for the closed-form leaves: constants computed at construction and the
    # formulas themselves must be accurate to a few float32 ulps against the float64 reference
    f32 = []
    for c in cases:
        if c["kind"] in ("Affine", "Loc", "Scale", "Exp", "SoftPlus", "Tanh", "LeakyTanh", "TriAffine", "Flip", "AddCond") and \
                (c["kind"] in ("Affine", "TriAffine") or tuple(c.get("shape", ())) in ((), (2,), (2, 3))):
            f32.append({**c, "id": c["id"] + "|f32", "x64": False})
    return cases + f32


def _pat(n, salt):
    i = np.arange(n)
    return np.sin(1.7 * i + 0.9 * salt + 0.3) + 0.31 * np.cos(2.9 * i + salt)


def ref_spline(x, x_pos, y_pos, d, lo, hi):
    x = np.asarray(x, float)
    out = x.copy()
    inside = (x >= lo) & (x <= hi)
    xi_ = x[inside]
    k = np.clip(np.searchsorted(x_pos, xi_, side="right") - 1, 0, len(x_pos) - 2)
    w = x_pos[k + 1] - x_pos[k]
    s = (y_pos[k + 1] - y_pos[k]) / w
    t = (xi_ - x_pos[k]) / w
    num = (y_pos[k + 1] - y_pos[k]) * (s * t**2 + d[k] * t * (1 - t))
    den = s + (d[k + 1] + d[k] - 2 * s) * t * (1 - t)
    out[inside] = y_pos[k] + num / den
    return out


def run_case(case):
    import equinox as eqx
    import jax
    import jax.numpy as jnp

    import flowjax.bijections as B
    from flowjax.wrappers import unwrap
    from mc import battery as bt
    from mc.params import perturb

    kind, seed = case["kind"], case["seed"]
    viols = []
    tr = nt = 0
    digest = hashlib.sha1()
    sample = None
    seen = {}
    max_ratio = 0.0

    def add(tail, msg):
        sig = f"C07|{kind}|{tail}"
        seen[sig] = seen.get(sig, 0) + 1
        if seen[sig] <= 1:
            viols.append({"sig": sig, "msg": msg, "detail": {k: v for k, v in case.items() if k not in ("id",)}})

    f32 = not case.get("x64", True)

    def compare(b, X, ref, what, cond=None, rt=RT):
        nonlocal tr, nt, sample, max_ratio
        f = (lambda x: b.transform(x, cond))
        if f32:
            # inputs are rounded to float32 first; the reference is evaluated in float64 at those rounded inputs by the
            # caller's formulas being smooth: allow 1e-5 relative (tens of float32 ulps, conditioning of exp/tanh tails)
            rt = max(rt, 2e-5)
            X = np.asarray(X, np.float32).astype(np.float64)
            cond = None if cond is None else jnp.asarray(cond, jnp.float32)
        Y = np.asarray(jax.vmap(f)(jnp.asarray(X, jnp.float32 if f32 else jnp.float64)), float)
        ref = np.asarray(ref, float)
        tr += X.shape[0]
        N = X.shape[0]
        fin = np.isfinite(ref.reshape(N, -1)).all(1) & (np.abs(ref.reshape(N, -1)).max(1, initial=0) < (1e37 if f32 else 1e300))
        nt += int((fin & (np.abs(ref - X).reshape(N, -1).max(1, initial=0) > 1e-9)).sum())
        digest.update(np.ascontiguousarray(np.nan_to_num(Y)).tobytes())
        with np.errstate(invalid="ignore", over="ignore"):
            err = (np.abs(Y - ref) / (1 + np.abs(ref))).reshape(N, -1).max(1, initial=0)
        bad = fin & ~(err <= rt)
        if fin.any():
            max_ratio = max(max_ratio, float(np.max(np.where(fin & ~bad, err, 0)) / rt))
        if sample is None and fin.any():
            sample = {"what": what, "x": X[0].tolist(), "flowjax": Y[0].tolist(), "reference": ref[0].tolist()}
        if bad.any():
            i = int(np.argmax(bad))
            add(what, f"{case['id']} {what}: transform({X[i].tolist()}) = {Y[i].tolist()}, documented function gives {ref[i].tolist()} ({int(bad.sum())}/{N} inputs)")

    levels = [0, 1, 2]
    if kind == "Affine":
        ls, ss = PAIRS[case["pair"]]
        loc = (1.3 * _pat(max(1, prod(ls)), seed)).reshape(ls)
        scale = (0.4 + 0.5 * np.arange(max(1, prod(ss))) + 0.1 * np.abs(_pat(max(1, prod(ss)), seed + 1))).reshape(ss)
        b0 = B.Affine(jnp.asarray(loc), jnp.asarray(scale))
        shape = np.broadcast_shapes(ls, ss)
        if tuple(b0.shape) != tuple(shape):
            add("shape", f"Affine(loc{ls}, scale{ss}).shape = {b0.shape}, broadcast shape is {shape}")
        for lvl in levels:
            b = perturb(b0, lvl, seed)
            X = bt.input_batch(np.full(shape, "R"), [], np.float64, max_points=200)
            if lvl == 0:
                compare(b, X, np.broadcast_to(scale, shape) * X + np.broadcast_to(loc, shape), "scale*x+loc with the constructor's loc/scale")
            u = unwrap(b)
            compare(b, X, np.asarray(u.scale) * X + np.asarray(u.loc), f"scale*x+loc (level {lvl})")
        # "with the parameters the constructor was given", across magnitudes (the scale is stored through an inverse softplus)
        rel_tol = 1e-11 if bt.np_dtype() == np.float64 else 2e-5
        for mag in (1e-6, 1e-5, 1e-4, 1e3, 1e6):
            want_s = np.asarray(mag * (1.0 + 0.25 * np.arange(3)), bt.np_dtype())
            for nm_, mk_, get_ in (("Affine", lambda v: B.Affine(jnp.zeros(3, v.dtype), jnp.asarray(v)), lambda u: u.scale), ("Scale", lambda v: B.Scale(jnp.asarray(v)), lambda u: u.scale),
                                   ("TriangularAffine diagonal", lambda v: B.TriangularAffine(jnp.zeros(3, v.dtype), jnp.asarray(np.diag(v))), lambda u: jnp.diag(u.triangular))):
                got_s = np.asarray(get_(unwrap(mk_(want_s))), float)
                rel = float(np.max(np.abs(got_s - want_s.astype(float)) / want_s.astype(float)))
                if not rel <= rel_tol:
                    add("constructor-scale-magnitude", f"{nm_} built with scale {want_s.tolist()} uses {got_s.tolist()} (relative error {rel:.2e})")
        neg = eqx.tree_at(lambda a: a.scale, b0, jnp.asarray(-np.broadcast_to(scale, shape)))
        X = bt.input_batch(np.full(shape, "R"), [], np.float64, max_points=60)
        compare(neg, X, -np.broadcast_to(scale, shape) * X + np.broadcast_to(loc, shape), "replaced negative scale")
    elif kind in ("Loc", "Scale", "Exp", "SoftPlus", "Tanh", "Flip", "Identity", "LeakyTanh", "AddCond"):
        shape = tuple(case["shape"])
        n = max(1, prod(shape))
        X = bt.input_batch(np.full(shape, "R"), [case.get("max_val", 1.0), -case.get("max_val", 1.0)], np.float64, max_points=240)
        if kind == "Loc":
            v = (1.1 * _pat(n, seed)).reshape(shape)
            compare(B.Loc(jnp.asarray(v)), X, X + v, "x+loc")
        elif kind == "Scale":
            v = (0.3 + 0.7 * np.arange(n) + 0.1 * np.abs(_pat(n, seed))).reshape(shape)
            b0 = B.Scale(jnp.asarray(v))
            compare(b0, X, X * v, "scale*x with the constructor's scale")
            for lvl in (1, 2):
                b = perturb(b0, lvl, seed)
                compare(b, X, X * np.asarray(unwrap(b).scale), f"scale*x (level {lvl})")
        elif kind == "Exp":
            with np.errstate(over="ignore"):
                compare(B.Exp(shape), X, np.exp(X), "exp(x)")
        elif kind == "SoftPlus":
            compare(B.SoftPlus(shape), X, np.logaddexp(0.0, X), "log(1+exp(x))")
        elif kind == "Tanh":
            compare(B.Tanh(shape), X, np.tanh(X), "tanh(x)")
        elif kind == "Flip":
            compare(B.Flip(shape), X, X[(slice(None),) + (slice(None, None, -1),) * len(shape)], "reversal of every axis")
        elif kind == "Identity":
            compare(B.Identity(shape), X, X, "identity")
        elif kind == "LeakyTanh":
            m = float(case["max_val"])
            g = 1 - np.tanh(m) ** 2
            ref = np.where(np.abs(X) >= m, np.sign(X) * (np.tanh(m) + g * (np.abs(X) - m)), np.tanh(X))
            compare(B.LeakyTanh(m, shape), X, ref, "tanh inside +-max_val, tangent line outside")
        elif kind == "AddCond":
            cs = tuple(case["cond"])
            W = (0.8 + 0.5 * _pat(n * max(1, prod(cs)), seed)).reshape(shape + cs)

            class F(eqx.Module):
                w: jax.Array

                def __call__(self, c):
                    return jnp.tensordot(self.w, c, axes=len(cs))

            b = B.AdditiveCondition(F(jnp.asarray(W)), shape, cs)
            for c in bt.conditions(cs, np.float64, 3):
                compare(b, X, X + np.tensordot(W, c, axes=len(cs)), "x + f(condition)", cond=jnp.asarray(c))
    elif kind == "TriAffine":
        d, lower = case["dim"], case["lower"]
        arr = (0.9 * _pat(d * d, seed)).reshape(d, d)
        arr[np.diag_indices(d)] = 0.4 + 0.6 * np.arange(d)
        for locshape in ((), (d,)):
            loc = (0.7 * _pat(max(1, prod(locshape)), seed + 2)).reshape(locshape)
            b0 = B.TriangularAffine(jnp.asarray(loc), jnp.asarray(arr), lower=lower)
            A = np.tril(arr) if lower else np.triu(arr)
            X = bt.input_batch(np.full((d,), "R"), [], np.float64, max_points=200)
            compare(b0, X, X @ A.T + np.broadcast_to(loc, (d,)), f"A x + b with the {'lower' if lower else 'upper'} triangle of the given matrix")
            # "the other elements are ignored": a caller may leave the unused triangle uninitialised (NaN / inf / huge)
            if d >= 2:
                for fill in (np.nan, np.inf, -np.inf, 1e300):
                    arr2 = arr.copy()
                    arr2[np.triu_indices(d, 1) if lower else np.tril_indices(d, -1)] = fill
                    bf = B.TriangularAffine(jnp.asarray(loc), jnp.asarray(arr2), lower=lower)
                    compare(bf, X[:40], X[:40] @ A.T + np.broadcast_to(loc, (d,)), f"A x + b with the ignored triangle filled with {fill}")
            for lvl in (1, 2):
                b = perturb(b0, lvl, seed)
                u = unwrap(b)
                T_ = np.asarray(u.triangular)
                other = np.triu(T_, 1) if lower else np.tril(T_, -1)
                if np.any(other != 0):
                    add("triangle", f"TriangularAffine(lower={lower}) level {lvl}: entries outside the requested triangle are non-zero")
                compare(b, X, X @ T_.T + np.asarray(u.loc), f"A x + b (level {lvl})")
    elif kind == "Permute":
        shape = tuple(case["shape"])
        n = prod(shape)
        x = (np.arange(n) * 1.5 + 0.25).reshape(shape)
        X = np.stack([x, -x[(slice(None, None, -1),) * len(shape)] * 0.5 + 3])
        for p in itertools.permutations(range(n)):
            perm = np.asarray(p).reshape(shape)
            b = B.Permute(jnp.asarray(perm))
            ref = np.stack([xx.ravel()[perm.ravel()].reshape(shape) for xx in X])
            compare(b, X, ref, "y.flat[i] = x.flat[permutation.flat[i]]")
    elif kind == "RQS":
        iv = case["interval"]
        lo, hi = (-iv, iv) if not isinstance(iv, list) else iv
        b0 = B.RationalQuadraticSpline(knots=case["knots"], interval=tuple(iv) if isinstance(iv, list) else iv,
                                       min_derivative=case["min_derivative"])
        w = hi - lo
        lattice = np.linspace(lo - 0.25 * w, hi + 0.25 * w, 2001)
        for lvl in levels:
            b = perturb(b0, lvl, seed)
            u = unwrap(b)
            xp, yp, dv = (np.asarray(a, float) for a in (u.x_pos, u.y_pos, u.derivatives))
            consts = sorted(set([lo, hi] + xp.tolist()))
            A = np.asarray(bt.scalar_alphabet(consts, np.float64))
            X = np.concatenate([A, lattice])
            ref = ref_spline(X, xp, yp, dv, lo, hi)
            compare(b, X, ref, f"rational-quadratic interpolant through its knots (level {lvl})", rt=1e-9)
            Y = np.asarray(jax.vmap(b.transform)(jnp.asarray(lattice)), float)
            tr += 3
            if not np.all(np.diff(Y) >= 0) or not np.all(np.diff(Y)[(lattice[:-1] > lo) & (lattice[1:] < hi)] > 0):
                add("monotone", f"{case['id']} level {lvl}: transform is not monotone on the 2001-point lattice")
            Yk = np.asarray(jax.vmap(b.transform)(jnp.asarray(xp)), float)
            if not np.allclose(Yk, yp, rtol=0, atol=1e-9 * (1 + abs(lo) + abs(hi))):
                add("through-knots", f"{case['id']} level {lvl}: f(x_pos) = {Yk.tolist()} but y_pos = {yp.tolist()}")
            h = 1e-6 * w
            inner = xp[1:-1]
            if len(inner):
                slope = (np.asarray(jax.vmap(b.transform)(jnp.asarray(inner + h)), float) - np.asarray(jax.vmap(b.transform)(jnp.asarray(inner - h)), float)) / (2 * h)
                if not np.allclose(slope, dv[1:-1], rtol=1e-3, atol=1e-4):
                    add("knot-derivatives", f"{case['id']} level {lvl}: slopes at the inner knots {slope.tolist()} vs derivatives {dv[1:-1].tolist()}")
            out = np.concatenate([lattice[lattice < lo], lattice[lattice > hi], [lo - 1e6, hi + 1e6]])
            if not np.array_equal(np.asarray(jax.vmap(b.transform)(jnp.asarray(out)), float), out):
                add("identity-outside", f"{case['id']} level {lvl}: not the identity outside the interval")
            if lvl == 0 and not np.allclose(Y, lattice, rtol=0, atol=1e-12 * (1 + abs(lo) + abs(hi))):
                add("identity-at-init", f"{case['id']}: a freshly constructed spline is not the identity (max dev {np.abs(Y - lattice).max():.3g})")
    elif kind == "Planar":
        d, slope, cond = case["dim"], case["slope"], case["cond"]
        kw = dict(width_size=3, depth=1) if cond else {}
        b0 = B.Planar(jax.random.PRNGKey(seed), dim=d, cond_dim=cond, negative_slope=slope, **kw)
        X = bt.input_batch(np.full((d,), "R"), [], np.float64, max_points=150)
        for st in range(5):
            b = b0
            if cond is None:
                w_, u_, bb = (2.0 * _pat(d, seed + st), 2.5 * _pat(d, seed + 7 * st + 1) * (1 if st % 2 else -3), 0.5 * st - 1)
                b = eqx.tree_at(lambda p: p.params, b0, jnp.asarray(np.concatenate([w_, u_, [bb]])))
            else:
                b = perturb(b0, st % 3, seed + st)
            for c in bt.conditions(None if cond is None else (cond,), np.float64, 2):
                cj = None if c is None else jnp.asarray(c)
                pl = b.get_planar(cj)
                wv, bias = np.asarray(pl.weight, float), float(pl.bias)
                uh = np.asarray(pl.get_act_scale(), float)
                if cond is None:
                    pv = np.asarray(b.params, float)
                    if not (np.array_equal(wv, pv[:d]) and bias == pv[-1]):
                        add("param-layout", f"{case['id']}: w / bias are not params[:dim] / params[-1]")
                tr += 1  # (that w.u-hat > -1 holds for every raw value is C11's statement, not C07's)
                z = X @ wv + bias
                act = np.tanh(z) if slope is None else np.where(z >= 0, z, slope * z)
                compare(b, X, X + act[:, None] * uh[None, :], "x + u-hat*act(w.x+b)", cond=cj)
    return {"transitions": tr, "traces": tr, "states": 1, "nontrivial": nt, "violations": viols,
            "outcomes": {f"{kind}:{'ok' if not viols else 'BAD'}": 1}, "max_ratio": max_ratio, "digest": digest.hexdigest(), "sample": sample}
