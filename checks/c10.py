"""C10 - the bisection inverter finds the root of any increasing function.

The search is a small state machine (lower, upper, expand_by, signs, iterations). It is explored
through the public AutoregressiveBisectionInverter with duck-typed "bijections":
 * grid leg (jit): function family x slope x root position x initial interval x tol x max_iter x dtype,
 * traced leg (jax.disable_jit): both while_loops run as Python loops on the real cond/body and the
   supplied function records every evaluation point (explicit evaluation horizon),
 * driver leg: triangular maps of dimension 1-6 with cross-coordinate coupling,
 * BNAF leg: BlockAutoregressiveNetwork.inverse end to end with the default inverter."""
import hashlib
import itertools
import json
import math

PROPERTY = "C10"
HORIZON_S = {"quick": 600.0, "thorough": 1800.0}
RULE = (
    "state = (leg, dtype, initial interval, tol, max_iter) x (function kind, slope, root position); transition = "
    "one complete search on the real implementation; non-trivial = root outside the initial interval, on an end, "
    "hit exactly by a midpoint, or a loop that exits through max_iter"
)
ASSUMPTIONS = [
    "error bound judged: max(tol, 2(d+w0)/2^(max_iter+1)) + 8 ulp(root) with d = distance of the root outside the "
    "initial interval of width w0 (any doubling expansion satisfies it); coupled maps use the bound propagated through "
    "the triangular Jacobian",
    "function values have exact signs (family chosen so), roots are representable in the dtype",
]
KINDS = ["linear", "cubic", "sinh", "saturating", "kinked", "flatkink", "tiny_values", "huge_values"]
# tiny_values / huge_values: s * u with s so small (large) that the PRODUCT of two function values under(over)flows while every
# single value keeps an exact sign (smallest |u| met is ~1e-16 in float64, ~1e-11 in float32)
OUT_SCALE = {"float64": (1e-170, 1e170), "float32": (1e-25, 1e25)}
SLOPES = [1e-3, 1.0, 1e3]
INTERVALS = [(-10.0, 10.0), (0.0, 1.0), (-1e-3, 1e-3), (5.0, 6.0)]
TOLS = [1e-2, 1e-3, 1e-4, 1e-5, 1e-6, 1e-7, 1e-8, 1e-9]
MAX_ITERS = [0, 1, 5, 30, 200, None]  # None: max_iter not passed (the documented default, 200)


def bounds(tier):
    return {
        "kinds": KINDS, "slopes": SLOPES, "intervals": INTERVALS, "tols": TOLS, "max_iters": MAX_ITERS,
        "root_positions": "inside (3, incl. exact midpoint and dyadic), both ends, one ulp outside either end, +-3 widths, "
        "+-pi widths, +-1e6 away",
        "dtypes": ["float64", "float32"],
        "driver_dims": "1..6 x coupling Lipschitz {0,0.5,2} x tol {1e-3,1e-6}",
        "bnaf": "dim 1..3 x depth 0..2 x block_dim 1..2 x cond (thorough: all; quick: dim<=2)",
        "traced_cases": "kinds x roots x 2 intervals x tol {1e-2,1e-6} x max_iter {5,200} (float64)",
        "exhaustive_within_bounds": True,
    }


def enumerate_cases(tier, seed):
    cases = []
    for x64 in (True, False):
        for iv in range(len(INTERVALS)):
            for tol in TOLS:
                cases.append({"id": f"grid|x64={int(x64)}|iv={iv}|tol={tol:g}", "leg": "grid", "x64": x64, "iv": iv,
                              "tol": tol, "seed": seed})
    for x64 in (True, False):
        for dim in range(1, 7):
            cases.append({"id": f"driver|x64={int(x64)}|dim={dim}", "leg": "driver", "x64": x64, "dim": dim, "seed": seed})
    for iv in (0, 1):
        for kind in range(len(KINDS)):
            cases.append({"id": f"traced|iv={iv}|kind={KINDS[kind]}", "leg": "traced", "x64": True, "iv": iv,
                          "kind": kind, "seed": seed})
    dims = (1, 2) if tier == "quick" else (1, 2, 3)
    for dim in dims:
        for depth in (0, 1, 2):
            for cond in (None, 2):
                cases.append({"id": f"bnaf|dim={dim}|depth={depth}|cond={cond}", "leg": "bnaf", "x64": True, "dim": dim,
                              "depth": depth, "cond": cond, "seed": seed, "tier": tier})
    return cases


def _fam(jnp, lax):
    def f(kind, a, r, x):
        u = a * (x - r)
        tiny, huge = OUT_SCALE[str(jnp.asarray(u).dtype)] if str(jnp.asarray(u).dtype) in OUT_SCALE else (1.0, 1.0)
        return lax.switch(
            kind,
            [
                lambda u: u,
                lambda u: u**3 + u,
                lambda u: jnp.sinh(u),
                lambda u: jnp.tanh(u) + 0.01 * u,
                lambda u: jnp.where(u < 0, 0.1 * u, 5.0 * u),
                lambda u: jnp.where(jnp.abs(u) < 1, 1e-3 * u, u - jnp.sign(u) * (1 - 1e-3)),
                lambda u: tiny * u,
                lambda u: huge * u,
            ],
            u,
        )

    return f


def _roots(np, lo, hi, dtype):
    w = hi - lo
    lo_, hi_ = dtype(lo), dtype(hi)
    vals = {
        "inside.3": lo + 0.3 * w, "mid": (lo + hi) / 2, "quarter": lo + w / 4, "at_lo": lo, "at_hi": hi,
        "ulp_below_lo": np.nextafter(lo_, dtype(-np.inf)), "ulp_above_hi": np.nextafter(hi_, dtype(np.inf)),
        "hi+3w": hi + 3 * w, "lo-3w": lo - 3 * w, "hi+pi*w": hi + math.pi * w, "lo-pi*w": lo - math.pi * w,
        "hi+1e6": hi + 1e6, "lo-1e6": lo - 1e6,
    }
    return {k: dtype(v) for k, v in vals.items()}


class _Dup:
    pass


def _grid(case):
    import equinox as eqx
    import jax
    import jax.numpy as jnp
    import numpy as np
    from jax import lax

    from flowjax.bisection_search import AutoregressiveBisectionInverter

    x64 = case["x64"]
    dtype = np.float64 if x64 else np.float32
    lo, hi = INTERVALS[case["iv"]]
    tol = case["tol"]
    fam = _fam(jnp, lax)
    roots = _roots(np, lo, hi, dtype)
    combos = list(itertools.product(range(len(KINDS)), SLOPES, list(roots)))
    kind_a = jnp.asarray([c[0] for c in combos], jnp.int32)
    a_a = jnp.asarray([c[1] for c in combos], dtype)
    r_a = jnp.asarray([roots[c[2]] for c in combos], dtype)
    viols, outcomes = [], {}
    transitions = nontrivial = 0
    obs_all = []
    max_ratio = 0.0
    eps = np.finfo(dtype).eps
    for max_iter in MAX_ITERS:
        if max_iter is None:
            inv = AutoregressiveBisectionInverter(lower=dtype(lo), upper=dtype(hi), tol=tol)
            max_iter = 200  # the documented default is what the outcome is judged against
        else:
            inv = AutoregressiveBisectionInverter(lower=dtype(lo), upper=dtype(hi), tol=tol, max_iter=max_iter)

        class B:
            shape = (1,)

            def __init__(self, k, a, r):
                self.k, self.a, self.r = k, a, r

            def transform(self, x, condition=None):
                return fam(self.k, self.a, self.r, x)

        @jax.jit
        def solve(k, a, r):
            return jax.vmap(lambda k, a, r: inv(B(k, a, r), jnp.zeros((1,), dtype))[0])(k, a, r)

        out = np.asarray(solve(kind_a, a_a, r_a))
        obs_all.append(out.tolist())
        w0 = hi - lo
        for (k, a, rn), got in zip(combos, out):
            transitions += 1
            r = float(roots[rn])
            d = max(0.0, r - hi, lo - r)
            ulp = float(np.spacing(dtype(max(abs(r), float(np.finfo(dtype).tiny)))))
            bound = max(tol, 2 * (d + w0) / 2.0 ** (max_iter + 1)) + 8 * ulp + 4 * eps * max(abs(lo), abs(hi)) * (d == 0)
            err = abs(float(got) - r)
            ok = np.isfinite(got) and err <= bound
            ratio = err / bound if np.isfinite(err) else float("inf")
            max_ratio = max(max_ratio, ratio if ok else 0.0)
            limited = 2 * (d + w0) / 2.0 ** (max_iter + 1) > tol
            if rn not in ("inside.3",) or limited:
                nontrivial += 1
            o = f"{'outside' if d > 0 else 'inside'},{'iterlimited' if limited else 'tol'},{'ok' if ok else 'BAD'}"
            outcomes[o] = outcomes.get(o, 0) + 1
            if not ok:
                viols.append({
                    "sig": f"C10|grid|{'f64' if x64 else 'f32'}|root={rn}|{'iterlimited' if limited else 'tol'}",
                    "msg": f"{KINDS[k]} slope={a:g} root={r!r} ({rn}) interval=({lo},{hi}) tol={tol:g} max_iter={max_iter}: "
                           f"returned {float(got)!r}, |err|={err:.3g} > bound {bound:.3g}",
                    "detail": {"kind": KINDS[k], "slope": a, "root": r, "interval": [lo, hi], "tol": tol, "max_iter": max_iter},
                })
    return viols, outcomes, transitions, nontrivial, obs_all, max_ratio


def _traced(case):
    import jax
    import jax.numpy as jnp
    import numpy as np
    from jax import lax

    from flowjax.bisection_search import AutoregressiveBisectionInverter

    dtype = np.float64
    lo, hi = INTERVALS[case["iv"]]
    k = case["kind"]
    fam = _fam(jnp, lax)
    roots = _roots(np, lo, hi, dtype)
    viols, outcomes, obs_all = [], {}, []
    transitions = nontrivial = 0
    counters = {"traced_bracket_contains_root": 0, "traced_evaluations": 0}
    HZ = 1500

    class Horizon(Exception):
        pass

    for rn, r in roots.items():
        for a in (1e-3, 1e3):
            for tol in (1e-2, 1e-6):
                for max_iter in (5, 200):
                    pts = []

                    class B:
                        shape = (1,)

                        def transform(self, x, condition=None):
                            pts.append(float(x[0]))
                            if len(pts) > HZ:
                                raise Horizon()
                            return fam(k, a, r, x)

                    inv = AutoregressiveBisectionInverter(lower=lo, upper=hi, tol=tol, max_iter=max_iter)
                    transitions += 1
                    try:
                        with jax.disable_jit():
                            got = float(inv(B(), jnp.zeros((1,)))[0])
                    except Horizon:
                        viols.append({"sig": "C10|traced|non-termination",
                                      "msg": f"{KINDS[k]} slope={a:g} root={rn} interval=({lo},{hi}) tol={tol:g} max_iter={max_iter}: "
                                             f"more than {HZ} function evaluations", "detail": {"points": pts[:40]}})
                        continue
                    r_ = float(r)
                    d = max(0.0, r_ - hi, lo - r_)
                    w0 = hi - lo
                    bound = max(tol, 2 * (d + w0) / 2.0 ** (max_iter + 1)) + 8 * float(np.spacing(max(abs(r_), 1e-300))) + 4e-16 * max(abs(lo), abs(hi)) * (d == 0)
                    err = abs(got - r_)
                    counters["traced_evaluations"] += len(pts)
                    # evaluations made: 2 (ends) + 2 per adaptation + one per bisection iteration
                    n_adapt_max = 2 * (2 + int(math.log2(max(1.0, (d + w0) / w0)) + 2))
                    if len(pts) > 2 + n_adapt_max + max_iter:
                        viols.append({"sig": "C10|traced|too-many-iterations",
                                      "msg": f"{KINDS[k]} slope={a:g} root={rn} tol={tol:g} max_iter={max_iter}: {len(pts)} evaluations",
                                      "detail": {"points": pts[:60]}})
                    if min(pts) <= r_ <= max(pts):
                        counters["traced_bracket_contains_root"] += 1
                    if d > 0:
                        nontrivial += 1
                    o = f"evals<={10 * (len(pts) // 10 + 1)},{'ok' if err <= bound else 'BAD'}"
                    outcomes[o] = outcomes.get(o, 0) + 1
                    obs_all.append([rn, a, tol, max_iter, got, len(pts)])
                    if not err <= bound:
                        viols.append({"sig": f"C10|traced|root={rn}",
                                      "msg": f"{KINDS[k]} slope={a:g} root={r_!r} interval=({lo},{hi}) tol={tol:g} max_iter={max_iter}: "
                                             f"returned {got!r} err {err:.3g} > {bound:.3g}; evaluation points {pts[:12]}...",
                                      "detail": {"points": pts[:80]}})
    return viols, outcomes, transitions, nontrivial, obs_all, counters


def _driver(case):
    import jax
    import jax.numpy as jnp
    import numpy as np

    from flowjax.bisection_search import AutoregressiveBisectionInverter

    x64, dim, seed = case["x64"], case["dim"], case["seed"]
    dtype = np.float64 if x64 else np.float32
    eps = float(np.finfo(dtype).eps)
    viols, outcomes, obs_all = [], {}, []
    transitions = nontrivial = 0
    max_ratio = 0.0
    idx = np.arange(dim)
    for lip in (0.0, 0.5, 2.0):
        for slope_kind in ("unit", "mixed"):
            s = np.ones(dim) if slope_kind == "unit" else np.asarray([[0.05, 1.0, 20.0][(i + seed) % 3] for i in range(dim)])
            # strictly lower-triangular coupling with row sums of |c| == lip
            C = np.zeros((dim, dim))
            for i in range(1, dim):
                row = np.asarray([((-1) ** (i + j)) * (1 + ((i * 7 + j * 3 + seed) % 4)) for j in range(i)], float)
                C[i, :i] = lip * row / np.abs(row).sum()
            Cj, sj = jnp.asarray(C, dtype), jnp.asarray(s, dtype)

            class T:
                shape = (dim,)

                def transform(self, x, condition=None):
                    return sj * x + jnp.tanh(x) + Cj @ jnp.sin(x)  # own-slope in [s, s+1], coupling Lipschitz <= lip

            xs = [
                np.zeros(dim), np.full(dim, 0.7), np.asarray([(-1) ** i * (0.3 + i) for i in idx], float),
                np.asarray([25.0 * (-1) ** (i + 1) for i in idx]), np.asarray([10.0 + i for i in idx], float),
                np.asarray([-1e3 * (i + 1) for i in idx], float),
            ]
            for tol in ((1e-3, 1e-6, "int-bounds") if x64 else (1e-2, 1e-4, "int-bounds")):
                if tol == "int-bounds":  # Python-int bounds are accepted by the constructor (converter=jnp.asarray)
                    tol = 1e-3 if x64 else 1e-2
                    inv = AutoregressiveBisectionInverter(lower=-10, upper=10, tol=tol)
                else:
                    inv = AutoregressiveBisectionInverter(tol=tol)
                solve = jax.jit(lambda y: inv(T(), y))
                for xi, xstar in enumerate(xs):
                    xstar = jnp.asarray(xstar, dtype)
                    y = T().transform(xstar)
                    got = np.asarray(solve(y), float)
                    transitions += 1
                    nontrivial += 1 if (lip > 0 and dim > 1) else 0
                    e = np.zeros(dim)
                    xs_ = np.asarray(xstar, float)
                    for i in range(dim):
                        noise = 16 * eps * (abs(float(y[i])) + s[i] * abs(xs_[i]) + 1 + lip) / s[i]
                        e[i] = tol + 8 * float(np.spacing(dtype(max(abs(xs_[i]), 1e-30)))) + noise + np.abs(C[i, :i]) @ e[:i] / s[i]
                    err = np.abs(got - xs_)
                    ok = bool(np.all(np.isfinite(got)) and np.all(err <= e))
                    if ok:
                        max_ratio = max(max_ratio, float(np.max(err / e)))
                    o = f"lip={lip},{'ok' if ok else 'BAD'}"
                    outcomes[o] = outcomes.get(o, 0) + 1
                    obs_all.append(got.tolist())
                    if not ok:
                        viols.append({"sig": f"C10|driver|{'f64' if x64 else 'f32'}|dim={dim}",
                                      "msg": f"dim={dim} lip={lip} slopes={slope_kind} tol={tol:g} x*={xs_.tolist()}: got {got.tolist()} "
                                             f"err {err.tolist()} bound {e.tolist()}",
                                      "detail": {"lip": lip, "slopes": s.tolist(), "tol": tol, "x": xs_.tolist()}})
    return viols, outcomes, transitions, nontrivial, obs_all, max_ratio


def _bnaf(case):
    import equinox as eqx
    import jax
    import jax.numpy as jnp
    import numpy as np

    from flowjax.bijections import BlockAutoregressiveNetwork
    from mc.params import perturb

    dim, depth, cond, seed = case["dim"], case["depth"], case["cond"], case["seed"]
    viols, outcomes, obs_all = [], {}, []
    transitions = nontrivial = 0
    max_ratio = 0.0
    eps = 2.2e-16
    for block_dim in (1, 2):
        for level in (0, 1, 2):
            b = BlockAutoregressiveNetwork(jax.random.PRNGKey(seed), dim=dim, cond_dim=cond, depth=depth, block_dim=block_dim)
            b = perturb(b, level, seed)
            c = None if cond is None else jnp.asarray([0.5, -1.5])
            xs = [np.zeros(dim), np.full(dim, 0.9), np.asarray([(-1) ** i * (2.0 + i) for i in range(dim)]),
                  np.full(dim, -6.0), np.asarray([30.0 * (-1) ** i for i in range(dim)])]
            fwd = jax.jit(lambda x: b.transform(x, c))
            inv = jax.jit(lambda y: b.inverse(y, c))
            jac = jax.jit(jax.jacfwd(lambda x: b.transform(x, c)))
            for xstar in xs:
                xstar = jnp.asarray(xstar)
                y = fwd(xstar)
                got = np.asarray(inv(y))
                J = np.asarray(jac(xstar))
                transitions += 1
                nontrivial += 1 if level > 0 else 0
                tol = 1e-7
                e = np.zeros(dim)
                for i in range(dim):
                    noise = 64 * eps * (abs(float(y[i])) + 1 + np.abs(J[i]).sum() * (1 + np.abs(np.asarray(xstar)).max())) / J[i, i]
                    # local-linear propagation with a factor 2 for curvature over the error ball
                    e[i] = tol + noise + 2 * np.abs(J[i, :i] / J[i, i]) @ e[:i]
                err = np.abs(got - np.asarray(xstar))
                ok = bool(np.all(np.isfinite(got)) and np.all(err <= e))
                if ok:
                    max_ratio = max(max_ratio, float(np.max(err / e)))
                o = f"level={level},{'ok' if ok else 'BAD'}"
                outcomes[o] = outcomes.get(o, 0) + 1
                obs_all.append(got.tolist())
                if not ok:
                    viols.append({"sig": f"C10|bnaf|dim={dim}|depth={depth}",
                                  "msg": f"BNAF dim={dim} depth={depth} block_dim={block_dim} cond={cond} level={level} x*={np.asarray(xstar).tolist()}: "
                                         f"inverse(transform(x)) = {got.tolist()} err {err.tolist()} bound {e.tolist()}",
                                  "detail": {"block_dim": block_dim, "level": level, "x": np.asarray(xstar).tolist()}})
    return viols, outcomes, transitions, nontrivial, obs_all, max_ratio


def run_case(case):
    counters, max_ratio = {}, 0.0
    if case["leg"] == "grid":
        viols, outcomes, tr, nt, obs, max_ratio = _grid(case)
    elif case["leg"] == "traced":
        viols, outcomes, tr, nt, obs, counters = _traced(case)
    elif case["leg"] == "driver":
        viols, outcomes, tr, nt, obs, max_ratio = _driver(case)
    else:
        viols, outcomes, tr, nt, obs, max_ratio = _bnaf(case)
    seen, kept = {}, []
    for v in viols:
        seen[v["sig"]] = seen.get(v["sig"], 0) + 1
        if seen[v["sig"]] <= 2:
            kept.append(v)
    return {
        "transitions": tr, "traces": tr, "states": tr, "nontrivial": nt, "violations": kept, "outcomes": outcomes,
        "counters": counters, "max_ratio": max_ratio,
        "digest": hashlib.sha1(json.dumps(obs).encode()).hexdigest(), "sample": obs[0] if obs else None,
    }
