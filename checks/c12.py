"""C12 - unwrap applies every wrapper exactly once; frozen parameters never move.

Legs:
 * trees:   every nesting of {BijectionReparam, Where, WeightNormalization, Lambda, NonTrainable} to depth 3 over
            array leaves of rank 1-2, inside containers, constructed directly and under 1-2 levels of
            eqx.filter_vmap; reference value computed leaf by leaf in NumPy.
 * methods: every bijection / distribution method gives the same result on obj and on unwrap(obj).
 * freeze:  models x EVERY subset of their trainable leaves frozen: exact-zero gradients on frozen leaves,
            a non-zero gradient somewhere else; frozen transformer leaves are not conditioner outputs.
 * train:   both training loops x optimisers {sgd, adam, adamw(weight_decay), hostile "+1 to everything"} x
            1-3 steps/epochs: frozen and non-floating leaves bit-identical afterwards, something unfrozen moved."""
import hashlib
import itertools

import numpy as np

PROPERTY = "C12"
HORIZON_S = {"quick": 900.0, "thorough": 2400.0}
RULE = (
    "state = wrapper tree | (model, frozen subset) | (model, frozen subset, loop, optimiser, steps); transition = one "
    "unwrap comparison, one gradient inspection or one complete training run; non-trivial = a strict, non-empty subset "
    "frozen or a nesting depth >= 2"
)
ASSUMPTIONS = ["the hostile optimiser adds 1 to every leaf it is handed; what it is handed is decided by the loops' partition"]
WRAPPERS = ["BR", "Where", "WN", "Lambda", "NT", "LambdaIdx"]  # LambdaIdx: a Lambda that also holds an INTEGER array (non-floating leaves must be vectorised too)


def bounds(tier):
    return {"wrapper_nesting_depth": 3, "vmap_levels": [0, 1, 2], "containers": ["tuple", "list", "dict", "Module"],
            "models": ["Normal", "Affine", "RQS", "Coupling", "MAF", "BNAF", "coupling_flow", "maf_flow(rqs)", "tri_spline_flow"],
            "freeze_subsets": "all 2^k subsets for k<=6 leaves; singles, complements of singles above; NonTrainable(model.bijection) / NonTrainable(model.base_dist) as whole sub-trees (eager, filter_jit, both training loops)",
            "optimisers": ["sgd", "adam", "adamw(wd=0.1)", "hostile(+1)"], "steps": [1, 2, 3] if tier != "quick" else [1, 3],
            "exhaustive_within_bounds": True}


MODELS = ["Normal", "Affine", "RQS", "Coupling", "MAF", "BNAF", "coupling_flow", "maf_rqs_flow", "tri_spline_flow"]


def enumerate_cases(tier, seed):
    cases = []
    chains = [()]
    for d in (1, 2, 3):
        chains += list(itertools.product(WRAPPERS, repeat=d))
    for i in range(8):
        cases.append({"id": f"trees|{i}", "leg": "trees", "part": i, "nparts": 8, "x64": True, "seed": seed})
    for m in MODELS:
        cases.append({"id": f"freeze|{m}", "leg": "freeze", "model": m, "x64": True, "seed": seed})
        for loop in ("data", "var"):
            cases.append({"id": f"train|{m}|{loop}", "leg": "train", "model": m, "loop": loop, "x64": True, "seed": seed, "tier": tier})
    cases.append({"id": "methods", "leg": "methods", "x64": True, "seed": seed})
    for i in range(4):
        cases.append({"id": f"ctor|{i}", "leg": "ctor", "part": i, "nparts": 4, "x64": True, "seed": seed, "tier": tier})
    return cases


# ----------------------------------------------------------------------------- wrapper trees
def _softplus(v):
    return np.logaddexp(0.0, v)


def build_chain(chain, base, mask, want_ref=True):
    """Apply wrappers innermost-first; returns (flowjax tree, reference numpy value)."""
    import jax.numpy as jnp

    import flowjax.bijections as B
    from flowjax import wrappers as W

    node = jnp.asarray(base)
    ref = np.asarray(base, float) if want_ref else None
    for ci_, w in enumerate(chain):
        if not want_ref:
            if w == "BR":
                node = W.BijectionReparam(node, B.SoftPlus(), invert_on_init=False)
            elif w == "Where":
                shp = _shape_after(chain[:ci_], base)
                node = W.Where(jnp.asarray(_mask(shp)), node, 0.25)
            elif w == "WN":
                node = W.WeightNormalization(node)
            elif w == "Lambda":
                node = W.Lambda(_rank_sensitive, node)
            elif w == "NT":
                node = W.NonTrainable(node)
            elif w == "LambdaIdx":
                node = W.Lambda(_take_last, jnp.asarray(_perm_last(_shape_after(chain[:ci_], base))), node)
            continue
        if w == "BR":
            node, ref = W.BijectionReparam(node, B.SoftPlus(), invert_on_init=False), _softplus(ref)
        elif w == "Where":
            m_ = _mask(ref.shape)
            node, ref = W.Where(jnp.asarray(m_), node, 0.25), np.where(m_, ref, 0.25)
        elif w == "WN":
            nrm = np.linalg.norm(ref, axis=-1, keepdims=True)
            node, ref = W.WeightNormalization(node), (1 / nrm) * ref / nrm
        elif w == "Lambda":
            node, ref = W.Lambda(_rank_sensitive, node), 0.5 * ref @ ref.T + 1.0 + ref[0, 0]
        elif w == "NT":
            node, ref = W.NonTrainable(node), ref
        elif w == "LambdaIdx":
            idx = _perm_last(ref.shape)
            node, ref = W.Lambda(_take_last, jnp.asarray(idx), node), np.take(ref, idx, axis=-1)
    return node, ref


def _perm_last(shape):
    return np.roll(np.arange(shape[-1]), 1)


def _take_last(idx, a):
    # NOT broadcast-safe in idx: a batched idx (constructed under vmap) gives a wrong shape / value unless unwrap maps over it too
    import jax.numpy as jnp

    return jnp.take(a, idx, axis=-1)


def _rank_sensitive(a):
    # NOT broadcast-safe on purpose: gives a wrong value / shape unless unwrap vectorises it over construction axes
    return 0.5 * a @ a.T + 1.0 + a[0, 0]


def _mask(shape):
    return np.arange(int(np.prod(shape))).reshape(shape) % 2 == 0


def _shape_after(chain, base):
    shp = tuple(np.shape(base))[-2:]
    for w in chain:
        if w == "Lambda":
            shp = (shp[0], shp[0])
    return shp


def _has_wrapper(tree):
    import jax

    from flowjax import wrappers as W

    return any(isinstance(l, W.AbstractUnwrappable) for l in jax.tree_util.tree_leaves(tree, is_leaf=lambda x: isinstance(x, W.AbstractUnwrappable)))


def _leg_trees(case, add):
    import equinox as eqx
    import jax
    import jax.numpy as jnp

    from flowjax.wrappers import unwrap

    chains = [()]
    for d in (1, 2, 3):
        chains += list(itertools.product(WRAPPERS, repeat=d))
    tr = nt = 0
    bases = [np.asarray([[0.5, -1.5], [2.0, 0.7]]), np.asarray([[1.0, 2.0, -0.5]])]
    for ci, chain in enumerate(chains):
        if ci % case["nparts"] != case["part"]:
            continue
        for base in bases:
            mask = (np.arange(base.size).reshape(base.shape) % 2 == 0)
            tree, ref = build_chain(chain, base, mask)
            tag = "/".join(chain) or "bare"
            # containers
            class Box(eqx.Module):
                a: object
                n: int = 3

            for cname, cont in (("tuple", (tree, 1.0)), ("list", [tree]), ("dict", {"k": tree}), ("Module", Box(tree))):
                u = unwrap(cont)
                tr += 1
                nt += int(len(chain) >= 2)
                val = u[0] if cname in ("tuple", "list") else (u["k"] if cname == "dict" else u.a)
                if _has_wrapper(u):
                    add(f"trees|wrapper-left|{tag}", f"unwrap left a wrapper node inside a {cname} for nesting {tag}")
                    continue
                if not np.allclose(np.asarray(val, float), ref, rtol=1e-12, atol=1e-14):
                    add(f"trees|value|{tag}", f"unwrap({tag} in {cname}) = {np.asarray(val).tolist()}, leaf-by-leaf reference {ref.tolist()}")
                uu = unwrap(u)
                if not all(np.array_equal(np.asarray(a), np.asarray(b)) for a, b in zip(jax.tree_util.tree_leaves(uu), jax.tree_util.tree_leaves(u))):
                    add(f"trees|idempotent|{tag}", f"unwrap is not idempotent for {tag} in {cname}")
            # vmapped construction (1 and 2 levels) == stack of individual constructions
            for levels in (1, 2, 11, 12):  # 11 / 12: one / two construction axes of size exactly 1
                shifts = np.asarray([0.0, 0.3, -0.6]) if levels < 10 else np.asarray([0.4])
                if levels in (1, 11):
                    vt = eqx.filter_vmap(lambda s: build_chain(chain, jnp.asarray(base) + s, mask, False)[0])(jnp.asarray(shifts))
                    want = np.stack([build_chain(chain, base + s, mask)[1] for s in shifts])
                else:
                    s2 = np.asarray([0.0, 1.1]) if levels < 10 else np.asarray([-0.7])
                    vt = eqx.filter_vmap(lambda t: eqx.filter_vmap(lambda s: build_chain(chain, jnp.asarray(base) + s + t, mask, False)[0])(jnp.asarray(shifts)))(jnp.asarray(s2))
                    want = np.stack([np.stack([build_chain(chain, base + s + t, mask)[1] for s in shifts]) for t in s2])
                tr += 1
                nt += 1
                try:
                    got = np.asarray(unwrap(vt), float)
                except Exception as e:
                    add(f"trees|vmap{levels}|raises|{tag}", f"unwrap of {tag} constructed under {levels} level(s) of filter_vmap raised {type(e).__name__}: {str(e)[:200]}")
                    continue
                if got.shape != want.shape or not np.allclose(got, want, rtol=1e-12, atol=1e-14):
                    add(f"trees|vmap{levels}|value|{tag}", f"{tag} constructed under {levels} level(s) of filter_vmap unwraps to shape {got.shape} / different values than the stack of individual constructions")
    return tr, nt, {"chains": len(chains)}


# ----------------------------------------------------------------------------- models
def build_model(name, seed, loop="data"):
    import jax.numpy as jnp
    import jax.random as jr

    import flowjax.bijections as B
    import flowjax.distributions as D
    from flowjax import flows

    k = jr.PRNGKey(seed + 2)
    base = D.StandardNormal((2,))
    if name == "Normal":
        return D.Normal(jnp.asarray([0.3, -0.4]), jnp.asarray([1.2, 0.7]))
    if name == "Affine":
        return D.Transformed(base, B.Affine(jnp.asarray([0.3, -0.4]), jnp.asarray([1.2, 0.7])))
    if name == "RQS":
        return D.Transformed(D.StandardNormal(()), B.RationalQuadraticSpline(knots=2, interval=3))
    if name == "Coupling":
        return D.Transformed(base, B.Coupling(k, transformer=B.Affine(), untransformed_dim=1, dim=2, nn_width=2, nn_depth=0))
    if name == "MAF":
        return D.Transformed(base, B.MaskedAutoregressive(k, transformer=B.Affine(), dim=2, nn_width=2, nn_depth=0))
    if name == "BNAF":
        bn = B.BlockAutoregressiveNetwork(k, dim=2, depth=1, block_dim=2)
        return D.Transformed(base, B.Invert(bn) if loop == "data" else bn)  # the differentiable direction for each loop
    if name == "coupling_flow":
        return flows.coupling_flow(k, base_dist=base, flow_layers=2, nn_width=2, nn_depth=0)
    if name == "maf_rqs_flow":
        return flows.masked_autoregressive_flow(k, base_dist=base, flow_layers=1, nn_width=2, nn_depth=0,
                                                transformer=B.RationalQuadraticSpline(knots=2, interval=3))
    if name == "tri_spline_flow":
        return flows.triangular_spline_flow(k, base_dist=base, flow_layers=1, knots=2)
    raise KeyError(name)


def _partition(model):
    import equinox as eqx

    from flowjax import wrappers as W

    return eqx.partition(model, eqx.is_inexact_array, is_leaf=lambda l: isinstance(l, W.NonTrainable))


def trainable_paths(model):
    import jax

    params, _ = _partition(model)
    return [p for p, _ in jax.tree_util.tree_leaves_with_path(params)]


def freeze(model, paths):
    """Wrap the leaves at the given key paths in NonTrainable (what flowjax.wrappers.non_trainable does per leaf)."""
    import jax

    from flowjax import wrappers as W

    pset = {jax.tree_util.keystr(p) for p in paths}

    def f(path, leaf):
        return W.NonTrainable(leaf) if jax.tree_util.keystr(path) in pset else leaf

    return jax.tree_util.tree_map_with_path(f, model, is_leaf=lambda l: isinstance(l, W.NonTrainable))


def subsets(paths, full_limit=6):
    k = len(paths)
    if k <= full_limit:
        for r in range(k + 1):
            for c in itertools.combinations(range(k), r):
                yield c
    else:
        yield ()
        yield tuple(range(k))
        for i in range(k):
            yield (i,)
            yield tuple(j for j in range(k) if j != i)


def leaves_by_path(tree):
    import jax

    from flowjax import wrappers as W

    out = {}
    for p, l in jax.tree_util.tree_leaves_with_path(tree):
        out[jax.tree_util.keystr(p)] = l
    return out


def _strip(path_str):
    return path_str.replace(".tree", "")


def _leg_freeze(case, add):
    import equinox as eqx
    import jax
    import jax.numpy as jnp

    from flowjax import wrappers as W

    model = build_model(case["model"], case["seed"])
    paths = trainable_paths(model)
    x = jnp.asarray([[0.3, -1.1], [1.4, 0.2], [-0.7, 0.9]]) if tuple(model.shape) == (2,) else jnp.asarray([0.3, -1.1, 1.4])
    tr = nt = 0

    def loss(params, static):
        return -eqx.combine(params, static).log_prob(x).mean()

    # gradient w.r.t. EVERY inexact array (also those inside NonTrainable): frozen ones must get exactly zero
    def full_grad(m):
        p, s = eqx.partition(m, eqx.is_inexact_array)
        return eqx.filter_grad(loss)(p, s)

    for sub in subsets(paths):
        fm = freeze(model, [paths[i] for i in sub])
        g = leaves_by_path(full_grad(fm))
        frozen = {jax.tree_util.keystr(paths[i]) for i in sub}
        tr += 1
        nt += int(0 < len(sub) < len(paths))
        moved = False
        for ks, gv in g.items():
            if _strip(ks) in frozen:
                if np.any(np.asarray(gv) != 0):
                    add(f"freeze|nonzero-grad|{case['model']}", f"{case['model']}: leaf {_strip(ks)} is non-trainable but receives gradient {np.asarray(gv).ravel()[:4].tolist()} (frozen set {sorted(frozen)})")
            elif np.any(np.asarray(gv) != 0):
                moved = True
        if len(sub) < len(paths) and not moved:
            # acceptable only if the unfrozen leaves genuinely have no influence: compare with the unfrozen model
            g0 = leaves_by_path(full_grad(model))
            if any(np.any(np.asarray(v) != 0) for k_, v in g0.items() if k_ not in frozen):
                add(f"freeze|all-zero|{case['model']}", f"{case['model']}: with {sorted(frozen)} frozen every gradient is zero although unfrozen leaves have non-zero gradient in the unfrozen model")
        # trainable partition must exclude exactly the frozen leaves
        tp = {jax.tree_util.keystr(p) for p in trainable_paths(fm)}
        if tp != {jax.tree_util.keystr(p) for p in paths} - frozen:
            add(f"freeze|partition|{case['model']}", f"{case['model']}: trainable partition {sorted(tp)} after freezing {sorted(frozen)}")
    # the library's own freezing function: non_trainable(tree) must freeze EVERY inexact array in the tree, wherever it sits
    from flowjax.wrappers import non_trainable as nt_fn

    for part_name, frozen_model in (("whole model", nt_fn(model)), ("bijection", eqx.tree_at(lambda m: m.bijection, model, replace_fn=nt_fn)),
                                    ("base_dist", eqx.tree_at(lambda m: m.base_dist, model, replace_fn=nt_fn))):
        tr += 1
        nt += 1
        g = leaves_by_path(full_grad(frozen_model))
        inside = (lambda k_: True) if part_name == "whole model" else (lambda k_, pn=part_name: k_.startswith("." + pn))
        for ks, gv in g.items():
            if inside(ks) and np.any(np.asarray(gv) != 0):
                add(f"freeze|non_trainable-leaves-gradient|{case['model']}", f"{case['model']}: after flowjax.wrappers.non_trainable({part_name}) leaf {_strip(ks)} still receives gradient {np.asarray(gv).ravel()[:3].tolist()}")
                break
        left = [jax.tree_util.keystr(p) for p in trainable_paths(frozen_model) if inside(jax.tree_util.keystr(p))]
        if left:
            add(f"freeze|non_trainable-leaves-trainable|{case['model']}", f"{case['model']}: after flowjax.wrappers.non_trainable({part_name}) these leaves are still in the trainable partition: {left[:4]}")
    # a floating NumPy leaf (eqx.tree_at with a NumPy array, a restored checkpoint): the loops train it (is_inexact_array), so
    # non_trainable(tree) must freeze it too
    if paths:
        first = jax.tree_util.keystr(paths[0])
        np_model = jax.tree_util.tree_map_with_path(lambda p_, l_: np.asarray(l_) if jax.tree_util.keystr(p_) == first else l_, model,
                                                    is_leaf=lambda l_: isinstance(l_, W.NonTrainable))
        tr += 1
        left = [jax.tree_util.keystr(p) for p in trainable_paths(nt_fn(np_model))]
        if left:
            add(f"freeze|non_trainable-numpy-leaf|{case['model']}", f"{case['model']} with a floating NumPy leaf: after flowjax.wrappers.non_trainable(model) these leaves are still in the partition the training loops update: {left[:3]}")
    # a whole sub-tree (a module, with its python-int shapes and callables) handed to NonTrainable directly: same values as
    # the unfrozen model eagerly AND when traced, exact-zero gradients inside, the rest still differentiable
    for attr in ("bijection", "base_dist"):
        sm = eqx.tree_at(lambda m, a=attr: getattr(m, a), model, replace_fn=W.NonTrainable)
        tr += 1
        nt += 1
        want = np.asarray(model.log_prob(x))
        for mode, f in (("eager", lambda m: m.log_prob(x)), ("filter_jit", eqx.filter_jit(lambda m: m.log_prob(x))),
                        ("filter_jit(grad)", eqx.filter_jit(lambda m: jax.tree_util.tree_leaves(full_grad(m))))):
            try:
                got = f(sm)
            except Exception as e:
                add(f"freeze|subtree-raises|{mode}|{type(e).__name__}", f"{case['model']}: NonTrainable({attr}) as a whole sub-tree: log_prob {mode} raised {type(e).__name__}: {str(e)[:160]}")
                continue
            if mode != "filter_jit(grad)" and not np.allclose(np.asarray(got), want, rtol=1e-12, atol=1e-14, equal_nan=True):
                add(f"freeze|subtree-value|{mode}", f"{case['model']}: NonTrainable({attr}) as a whole sub-tree changes log_prob ({mode})")
        try:
            g = leaves_by_path(full_grad(sm))
        except Exception as e:
            add(f"freeze|subtree-raises|grad|{type(e).__name__}", f"{case['model']}: gradient with NonTrainable({attr}) raised {type(e).__name__}: {str(e)[:160]}")
            continue
        g0 = leaves_by_path(full_grad(model))
        for ks, gv in g.items():
            if ks.startswith("." + attr):
                if np.any(np.asarray(gv) != 0):
                    add(f"freeze|subtree-nonzero-grad|{case['model']}", f"{case['model']}: leaf {_strip(ks)} inside NonTrainable({attr}) receives gradient {np.asarray(gv).ravel()[:3].tolist()}")
            elif ks in g0 and not np.allclose(np.asarray(gv), np.asarray(g0[ks]), rtol=1e-9, atol=1e-12):
                add(f"freeze|subtree-other-grad|{case['model']}", f"{case['model']}: freezing {attr} as a sub-tree changed the gradient of the unfrozen leaf {ks}")
    # frozen transformer leaves are not parameterised by conditioners
    import flowjax.bijections as B
    from flowjax.wrappers import non_trainable

    for tname, tr_ in (("Affine(loc frozen)", eqx.tree_at(lambda a: a.loc, B.Affine(), replace_fn=W.NonTrainable)),
                       ("Affine(all frozen)", non_trainable(B.Affine())), ("Affine", B.Affine()),
                       ("RQS(derivatives frozen)", eqx.tree_at(lambda s: s.derivatives, B.RationalQuadraticSpline(knots=2, interval=1), replace_fn=W.NonTrainable))):
        n_train = sum(int(np.prod(l.shape)) for l in jax.tree_util.tree_leaves(_partition(tr_)[0]))
        for cls, kw in ((B.Coupling, dict(untransformed_dim=1, dim=3)), (B.MaskedAutoregressive, dict(dim=3))):
            layer = cls(jax.random.PRNGKey(0), transformer=tr_, nn_width=3, nn_depth=1, **kw)
            mlp = layer.conditioner if cls is B.Coupling else layer.masked_autoregressive_mlp
            out = mlp.layers[-1].bias.shape[-1]
            n_dims = 2 if cls is B.Coupling else 3
            tr += 1
            if out != n_train * n_dims:
                add(f"freeze|conditioner-size|{cls.__name__}", f"{cls.__name__} with transformer {tname}: conditioner emits {out} values for {n_dims} dims x {n_train} trainable transformer parameters")
    return tr, nt, {"model": case["model"], "trainable_leaves": len(paths)}


def _hostile():
    import jax
    import jax.numpy as jnp
    import optax

    return optax.GradientTransformation(lambda p: (), lambda g, s, params=None: (jax.tree_util.tree_map(lambda a: jnp.ones_like(a), g), s))


def _leg_train(case, add):
    import equinox as eqx
    import jax
    import jax.numpy as jnp
    import jax.random as jr
    import optax

    from flowjax import wrappers as W
    from flowjax.train import fit_to_data, fit_to_variational_target
    from flowjax.train.losses import ElboLoss

    model = build_model(case["model"], case["seed"], case["loop"])
    paths = trainable_paths(model)
    d = tuple(model.shape)
    key = jr.PRNGKey(case["seed"] + 9)
    X = jr.normal(key, (12, *d)) * 0.7
    opts = {"sgd": optax.sgd(0.05), "adam": optax.adam(0.05), "adamw": optax.adamw(0.05, weight_decay=0.1), "hostile": _hostile()}
    steps_list = [1, 3] if case.get("tier") == "quick" else [1, 2, 3]
    k = len(paths)
    subs = [(), tuple(range(k))] + [(i,) for i in range(k)] + [tuple(j for j in range(k) if j != i) for i in range(k)]
    subs = list(dict.fromkeys(subs))
    tr = nt = 0
    moved_any = False
    quick = case.get("tier") == "quick"
    if quick:
        singles = list(range(k)) if k <= 5 else [0, 1, 2, k // 2, k - 1]
        subs = list(dict.fromkeys([(), tuple(range(k))] + [(i,) for i in singles] + [tuple(j for j in range(k) if j != singles[0])]))
    # whole sub-trees handed to NonTrainable directly (a module, not a leaf): NonTrainable(model.bijection) etc.
    subs += [("subtree", a) for a in ("bijection", "base_dist") if any(jax.tree_util.keystr(p).startswith("." + a) for p in paths)]
    for si, sub in enumerate(subs):
        if sub and sub[0] == "subtree":
            fm = eqx.tree_at(lambda m, a=sub[1]: getattr(m, a), model, replace_fn=W.NonTrainable)
            frozen = {jax.tree_util.keystr(p) for p in paths if jax.tree_util.keystr(p).startswith("." + sub[1])}
            sub = tuple(i for i, p in enumerate(paths) if jax.tree_util.keystr(p) in frozen)
        else:
            fm = freeze(model, [paths[i] for i in sub])
            frozen = {jax.tree_util.keystr(paths[i]) for i in sub}
        before = leaves_by_path(eqx.filter(fm, eqx.is_array))
        for oname, opt in opts.items():
            for steps in steps_list:
                if oname in ("adam", "adamw") and (steps != steps_list[-1] or (quick and si > 2)):
                    continue
                if quick and oname == "sgd" and steps != steps_list[-1]:
                    continue
                try:
                    if case["loop"] == "data":
                        out, _ = fit_to_data(key, fm, X, max_epochs=steps, batch_size=5, val_prop=0.25, optimizer=opt, show_progress=False,
                                             return_best=False)
                    else:
                        target = lambda x: -0.5 * jnp.sum((x - 0.3) ** 2)  # noqa: E731
                        out, _ = fit_to_variational_target(key, fm, ElboLoss(target, 4), steps=steps, optimizer=opt, show_progress=False,
                                                           return_best=False)
                except Exception as e:
                    if len(sub) == k and "empty" in str(e).lower():
                        continue
                    add(f"train|raises|{case['model']}|{case['loop']}|{type(e).__name__}", f"{case['model']} {case['loop']} {oname} frozen={sorted(frozen)}: {type(e).__name__}: {str(e)[:200]}")
                    continue
                tr += 1
                nt += int(0 < len(sub) < k)
                after = leaves_by_path(eqx.filter(out, eqx.is_array))
                if set(after) != set(before):
                    add(f"train|structure|{case['model']}", f"{case['model']}: the returned model has different leaves")
                    continue
                moved = False
                for ks, b in before.items():
                    a = after[ks]
                    same = np.array_equal(np.asarray(a), np.asarray(b), equal_nan=True) and np.asarray(a).dtype == np.asarray(b).dtype
                    inexact = np.issubdtype(np.asarray(b).dtype, np.inexact)
                    if _strip(ks) in frozen or not inexact:
                        if not same:
                            kind = "frozen" if inexact else "non-floating"
                            add(f"train|{kind}-leaf-moved|{case['loop']}|{oname}", f"{case['model']} {case['loop']} loop, optimiser {oname}, {steps} step(s): {kind} leaf {_strip(ks)} changed from {np.asarray(b).ravel()[:3].tolist()} to {np.asarray(a).ravel()[:3].tolist()}")
                    elif not same:
                        moved = True
                moved_any = moved_any or moved
                if len(sub) == 0 and not moved:
                    add(f"train|nothing-moved|{case['loop']}|{oname}", f"{case['model']} {case['loop']} loop, optimiser {oname}: no leaf of the fully trainable model moved")
    return tr, nt, {"model": case["model"], "loop": case["loop"], "subsets": len(subs)}


def _leg_methods(case, add):
    import jax.numpy as jnp
    import jax.random as jr

    from flowjax.wrappers import unwrap
    from mc import grammar as g

    tr = 0
    for s in g.rep_leaves() + [{"k": "Chain", "c": [{"k": "Affine", "shape": [2]}, {"k": "Tanh", "shape": [2]}]},
                               {"k": "Scan", "c": {"k": "Affine", "shape": [2]}, "n": 2}, {"k": "Vmap", "c": {"k": "RQS", "knots": 3, "interval": 2}, "mode": "mapped", "n": 2, "cond_axis": None}]:
        ii = g.info(s)
        b = g.build(s, 0, 1, case["seed"])
        ub = unwrap(b)
        x = jnp.full(ii.shape, 0.37)
        c = None if ii.cond_shape is None else jnp.full(ii.cond_shape, -0.6)
        for m in ("transform", "transform_and_log_det", "inverse", "inverse_and_log_det"):
            if not (ii.fwd if m.startswith("transform") else ii.inv):
                continue
            a, bb = getattr(b, m)(x, c), getattr(ub, m)(x, c)
            tr += 1
            la = a if isinstance(a, tuple) else (a,)
            lb = bb if isinstance(bb, tuple) else (bb,)
            if not all(np.allclose(np.asarray(p), np.asarray(q), rtol=1e-12, atol=1e-14, equal_nan=True) for p, q in zip(la, lb)):
                add(f"methods|{g._cls(s)}|{m}", f"{g._cls(s)}.{m} differs between the wrapped object and unwrap(object)")
    # a whole sub-bijection frozen with NonTrainable after construction (eqx.tree_at(..., replace_fn=NonTrainable)): every
    # method of the enclosing combinator must give the result of the unwrapped object (shape / cond_shape may be properties
    # that read the wrapped child)
    import equinox as eqx

    from flowjax import wrappers as W

    aff = {"k": "Affine", "shape": [3]}
    combos = [{"k": "Invert", "c": aff}, {"k": "Chain", "c": [aff, {"k": "Tanh", "shape": [3]}]}, {"k": "Concatenate", "c": [aff, aff], "axis": 0},
              {"k": "Stack", "c": [aff, aff], "axis": 0}, {"k": "Reshape", "c": aff, "shape": [3, 1]}, {"k": "Scan", "c": aff, "n": 2},
              {"k": "Vmap", "c": {"k": "Affine", "shape": []}, "mode": "mapped", "n": 3, "cond_axis": None},
              {"k": "Partial", "c": {"k": "Affine", "shape": []}, "idx": {"t": "int", "v": 1}, "shape": [3]},
              {"k": "Embed", "c": {"k": "AddCond", "shape": [2], "cond": [2]}, "raw": [3]}]
    for s in combos:
        try:
            ii = g.info(s)
            b = g.build(s, 0, 1, case["seed"])
        except Exception:
            continue  # not expressible in this grammar version: nothing to compare
        where = (lambda m: m.bijections[0]) if hasattr(b, "bijections") else (lambda m: m.bijection)
        wb = eqx.tree_at(where, b, replace_fn=W.NonTrainable)
        ub = unwrap(wb)
        if s["k"] == "Chain":
            # indexing / slicing a chain whose element is frozen as a whole must hand the marker on (the part is what gets trained later)
            for what, part in (("chain[0]", lambda: wb[0]), ("chain[:1]", lambda: wb[:1]), ("chain[:2]", lambda: wb[:2]), ("chain[-2:]", lambda: wb[-2:])):
                tr += 1
                try:
                    if _count_nt(part()) != 1:
                        add(f"methods|frozen-child|Chain|{what}|marker-lost", f"Chain([NonTrainable(layer), ...]): {what} no longer contains the NonTrainable marker")
                except Exception as e:
                    add(f"methods|frozen-child|Chain|{what}|raises", f"Chain([NonTrainable(layer), ...]): {what} raises {type(e).__name__}: {str(e)[:100]}")
        x = jnp.full(ii.shape, 0.37)
        c = None if ii.cond_shape is None else jnp.full(ii.cond_shape, -0.6)
        for m in ("transform", "transform_and_log_det", "inverse", "inverse_and_log_det"):
            tr += 1
            want = getattr(ub, m)(x, c)
            try:
                got = getattr(wb, m)(x, c)
            except Exception as e:
                add(f"methods|frozen-child|{s['k']}|raises|{type(e).__name__}", f"{s['k']} whose child was frozen with NonTrainable: {m} raises {type(e).__name__}: {str(e)[:120]} (works after unwrap)")
                continue
            la = got if isinstance(got, tuple) else (got,)
            lb = want if isinstance(want, tuple) else (want,)
            if not all(np.allclose(np.asarray(p_), np.asarray(q_), rtol=1e-12, atol=1e-14) for p_, q_ in zip(la, lb)):
                add(f"methods|frozen-child|{s['k']}|value", f"{s['k']} whose child was frozen with NonTrainable: {m} differs from the unwrapped object")
    # parameter accessors of the named families on a frozen distribution (non_trainable(dist)) and on unwrap(dist): same arrays
    import flowjax.distributions as D
    from flowjax.wrappers import non_trainable

    a_, b_ = jnp.asarray([0.3, -0.4]), jnp.asarray([1.2, 0.7])
    fams = {"Normal": (D.Normal(a_, b_), ("loc", "scale")), "LogNormal": (D.LogNormal(a_, b_), ("loc", "scale")), "Gumbel": (D.Gumbel(a_, b_), ("loc", "scale")),
            "Cauchy": (D.Cauchy(a_, b_), ("loc", "scale")), "Laplace": (D.Laplace(a_, b_), ("loc", "scale")), "Logistic": (D.Logistic(a_, b_), ("loc", "scale")),
            "StudentT": (D.StudentT(jnp.asarray([3.0, 5.0]), a_, b_), ("loc", "scale", "df")), "Uniform": (D.Uniform(a_, a_ + b_), ("minval", "maxval")),
            "Exponential": (D.Exponential(b_), ("rate",)), "MultivariateNormal": (D.MultivariateNormal(a_, jnp.asarray([[2.0, 0.3], [0.3, 1.0]])), ("loc", "covariance"))}
    for fname, (dist, accs) in fams.items():
        frozen, plain = non_trainable(dist), unwrap(dist)
        for acc in accs:
            if not hasattr(dist, acc):
                continue
            tr += 1
            want = np.asarray(getattr(plain, acc), float)
            try:
                got = getattr(frozen, acc)
                got = np.asarray(got, float)
            except Exception as e:
                add(f"methods|accessor-frozen|{fname}|{acc}|raises", f"non_trainable({fname}(...)).{acc} raises {type(e).__name__}: {str(e)[:120]}; unwrap(...).{acc} = {want.tolist()}")
                continue
            if got.shape != want.shape or not np.allclose(got, want, rtol=1e-12, atol=0):
                add(f"methods|accessor-frozen|{fname}|{acc}|value", f"non_trainable({fname}(...)).{acc} = {got.tolist()} but {want.tolist()} after unwrap")
    for name in ("Normal", "Coupling", "coupling_flow", "tri_spline_flow", "BNAF"):
        d = build_model(name, case["seed"])
        ud = unwrap(d)
        x = jnp.full(d.shape, 0.21)
        key = jr.PRNGKey(4)
        for nm, f in (("log_prob", lambda m: m.log_prob(x)), ("sample", lambda m: m.sample(key, (2,))), ("sample_and_log_prob", lambda m: m.sample_and_log_prob(key, (2,))[1])):
            tr += 1
            if not np.allclose(np.asarray(f(d)), np.asarray(f(ud)), rtol=1e-12, atol=1e-14):
                add(f"methods|{name}|{nm}", f"{name}.{nm} differs between the wrapped distribution and unwrap(distribution)")
    return tr, tr, {"methods_compared": tr}


def _count_nt(tree):
    import jax

    from flowjax import wrappers as W

    return sum(isinstance(l, W.NonTrainable) for l in jax.tree_util.tree_leaves(tree, is_leaf=lambda x: isinstance(x, W.NonTrainable)))


def _leg_ctor(case, add):
    """Every combinator constructor (and the coupling / autoregressive layers' transformer argument) handed children whose
    leaves are frozen must keep the NonTrainable markers: same number of NonTrainable nodes as the children had, nothing of
    them in the trainable partition, exactly zero gradient on them."""
    import equinox as eqx
    import jax
    import jax.numpy as jnp

    from flowjax.wrappers import non_trainable
    from mc import grammar as g

    specs, _ = g.enumerate_exprs(case.get("tier", "quick"))
    specs = g._one_per_kind([s for s in specs if g.info(s).depth == 1 and not (s["k"] == "Vmap" and s.get("mode") in ("mixed", "axis1"))])
    tr = 0
    for si, s in enumerate(specs):
        if si % case["nparts"] != case["part"]:
            continue
        kids = s["c"] if isinstance(s["c"], list) else [s["c"]]
        tag = g._cls(s) + (f"[{s.get('mode')}]" if s["k"] == "Vmap" else "")
        g.LEAF_HOOK = non_trainable
        try:
            expected = sum(_count_nt(g.build(k_, 0, 1, case["seed"])) for k_ in kids)
            b = g.build(s, 0, 1, case["seed"])
        except Exception as e:
            add(f"ctor|raises|{s['k']}|{type(e).__name__}", f"{tag}: constructing from children with frozen leaves raised {type(e).__name__}: {str(e)[:160]}")
            continue
        finally:
            g.LEAF_HOOK = None
        tr += 1
        got = _count_nt(b)
        if expected and got != expected:
            add(f"ctor|markers-lost|{s['k']}" + (f"[{s.get('mode')}]" if s["k"] == "Vmap" else ""),
                f"{tag}: the children carried {expected} NonTrainable leaves, the constructed {s['k']} has {got}")
            continue
        ii = g.info(s)
        if not ii.fwd or not expected:
            continue
        x = jnp.full(ii.shape, 0.37)
        c = None if ii.cond_shape is None else jnp.full(ii.cond_shape, -0.6)
        p_, st_ = eqx.partition(b, eqx.is_inexact_array)
        try:
            gr = eqx.filter_grad(lambda p: jnp.sum(eqx.combine(p, st_).transform(x, c)))(p_)
        except Exception:
            continue
        for path, leaf in jax.tree_util.tree_leaves_with_path(gr):
            if ".tree" in jax.tree_util.keystr(path) and np.any(np.asarray(leaf) != 0):
                add(f"ctor|frozen-grad|{s['k']}", f"{tag}: frozen leaf {jax.tree_util.keystr(path)} receives a gradient")
                break
    return tr, tr, {"constructors": tr}


def run_case(case):
    viols, seen = [], {}

    def add(sig, msg):
        seen[sig] = seen.get(sig, 0) + 1
        if seen[sig] <= 1:
            viols.append({"sig": "C12|" + sig, "msg": msg, "detail": {k: v for k, v in case.items() if k != "id"}})

    tr, nt, sample = {"trees": _leg_trees, "freeze": _leg_freeze, "train": _leg_train, "methods": _leg_methods, "ctor": _leg_ctor}[case["leg"]](case, add)
    for v in viols:
        n = seen[v["sig"][4:]]
        if n > 1:
            v["msg"] += f"  [{n} occurrences]"
    return {"transitions": tr, "traces": tr, "states": tr, "nontrivial": nt, "violations": viols,
            "outcomes": {f"{case['leg']}:{'ok' if not viols else 'BAD'}": 1}, "digest": hashlib.sha1(repr((tr, nt, sorted(seen))).encode()).hexdigest(), "sample": sample}
