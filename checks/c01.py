"""C01 - every bijection is invertible, both ways; the '..._and_log_det' point equals the plain one.

State = (bijection expression of the grammar | factory bijection, dtype); inside a state every parameter
level x condition x input of the boundary-directed alphabet is executed on the real object (one compiled
program per expression) and judged against conditioning-scaled tolerances (DESIGN 2.5)."""
import hashlib
import json

import numpy as np

PROPERTY = "C01"
HORIZON_S = {"quick": 900.0, "thorough": 2400.0}
K = 256.0
RULE = (
    "state = canonical expression tree (class, static fields, shapes) x dtype; transition = one round trip "
    "(forward-then-inverse on a domain point, inverse-then-forward on a codomain point or on an image point) or one "
    "plain-vs-and-log-det comparison at one (parameter level, condition, input); non-trivial = judged round trip "
    "whose map moves the point (|f(x)-x| > 1e-6) with a finite, well-conditioned Jacobian"
)
ASSUMPTIONS = [
    "round-trip tolerance K*eps*(m + ||J^-1||*m), K=256, m=max(|x|,|y|,1); points with non-finite images or cond(J)>=1e12 or K*eps*||J^-1||>1e-2 are skipped and counted",
    "numerically inverted expressions (BNAF) add 32*1e-7*(1+cond)*(1+||J||+||J^-1||); the rigorous bisection bound is C10's",
    "codomain->domain direction uses codomain alphabet points only where the grammar's type system knows the codomain exactly, image points otherwise",
]


def bounds(tier):
    from mc import grammar as g

    _, desc = g.enumerate_exprs(tier)
    return {
        "grammar": desc,
        "levels": [0, 1] if tier == "quick" else [0, 1, 2],
        "conditions": 2 if tier == "quick" else 3,
        "dtypes": ["float64"] + (["float32 (representative leaves + depth-1 of them)"] if tier == "quick" else ["float32 (all leaf configurations, one per (kind, option, child class) at depth 1)"]),
        "factories": "5 factories (9 configurations) x invert T/F x cond None/2 x 2 layers at dim 2; unconditional also at dim 1 and 3",
        "configured_inverter": "BlockAutoregressiveNetwork dim 1-3 x cond x depth 1-2 x AutoregressiveBisectionInverter(tol in {1e-2,1e-3,1e-5}, bracket (-10,10)|(-0.5,0.5)) x 2 levels x 12 points incl. the flat tails",
        "exhaustive_within_bounds": True,
    }


FACTORIES = ["coupling", "maf", "bnaf", "planar", "tri_spline", "coupling_rqs", "maf_rqs", "planar_tanh", "bnaf_d2", "maf_d0"]


def enumerate_cases(tier, seed):
    from mc import grammar as g

    specs, _ = g.enumerate_exprs(tier)
    cases = []
    for s in specs:
        cases.append({"id": "f64|" + g.canon(s), "spec": s, "x64": True, "tier": tier, "seed": seed})
    f32 = [s for s in specs if g.info(s).depth == 0]
    if tier != "quick":
        f32 += g._one_per_kind([s for s in specs if g.info(s).depth == 1])
    if tier == "quick":
        f32 += [s for s in specs if g.info(s).depth == 1 and s["k"] == "Invert"]
    for s in f32:
        cases.append({"id": "f32|" + g.canon(s), "spec": s, "x64": False, "tier": tier, "seed": seed})
    for f in FACTORIES:
        for inv in (True, False):
            for cond in (None, 2):
                cases.append({"id": f"f64|factory|{f}|invert={int(inv)}|cond={cond}", "factory": f, "invert": inv,
                              "cond": cond, "x64": True, "tier": tier, "seed": seed})
    # planar layers whose weight vector is exactly zero / so small that |w|^2 underflows (zero-initialised or pruned layer): the
    # guarded branch of the constraint is the one in force, identities that hold for w != 0 do not
    for sp in ({"k": "Planar", "dim": 2, "cond": None, "slope": 0.1, "w0": True}, {"k": "Planar", "dim": 2, "cond": 2, "slope": 0.1, "w0": True},
               {"k": "Planar", "dim": 3, "cond": None, "slope": 3.0, "w0": True}, {"k": "Planar", "dim": 2, "cond": None, "slope": None, "w0": True}):
        for x64 in (True, False):
            cases.append({"id": ("f64|" if x64 else "f32|") + g.canon(sp), "spec": sp, "x64": x64, "tier": tier, "seed": seed})
    # the factories again at dimension 1 and 3 (dimension-dependent structure: the default permutation between layers is none /
    # a flip / a random permutation, the coupling split is dim // 2, block shapes scale with dim)
    for f in FACTORIES:
        for inv in (True, False):
            for dim in (1, 3):
                cases.append({"id": f"f64|factory|{f}|invert={int(inv)}|cond=None|dim={dim}", "factory": f, "invert": inv, "cond": None, "dim": dim,
                              "x64": True, "tier": tier, "seed": seed})
    # numerically inverted bijections with a CONFIGURED search tolerance / bracket (the statement's "or the configured search tolerance")
    for dim in (1, 2, 3):
        for cond in (None, 2):
            for tol in (1e-2, 1e-3, 1e-5):
                cases.append({"id": f"f64|inverter|dim={dim}|cond={cond}|tol={tol:g}", "inverter": True, "dim": dim, "cond": cond, "tol": tol,
                              "x64": True, "tier": tier, "seed": seed})
    # expensive first
    cases.sort(key=lambda c: (0 if "factory" in c else 1, -len(c["id"])))
    return cases


def build_factory(name, invert, cond, seed, level, dim=2, layers=2, scale=0.5):
    import jax.random as jr

    import flowjax.bijections as B
    from flowjax import flows
    from flowjax.distributions import StandardNormal
    from mc.params import perturb

    key = jr.PRNGKey(seed + 11)
    base = StandardNormal((dim,))
    if name == "coupling":
        d = flows.coupling_flow(key, base_dist=base, cond_dim=cond, flow_layers=layers, nn_width=4, invert=invert)
    elif name == "coupling_rqs":
        d = flows.coupling_flow(key, base_dist=base, cond_dim=cond, flow_layers=layers, nn_width=4, invert=invert,
                                transformer=B.RationalQuadraticSpline(knots=3, interval=2))
    elif name == "maf":
        d = flows.masked_autoregressive_flow(key, base_dist=base, cond_dim=cond, flow_layers=layers, nn_width=4, invert=invert)
    elif name == "maf_d0":  # linear conditioners (nn_depth=0): the single masked layer is input and output layer at once
        d = flows.masked_autoregressive_flow(key, base_dist=base, cond_dim=cond, flow_layers=layers, nn_width=4, nn_depth=0, invert=invert)
    elif name == "maf_rqs":
        d = flows.masked_autoregressive_flow(key, base_dist=base, cond_dim=cond, flow_layers=layers, nn_width=4, invert=invert,
                                             transformer=B.RationalQuadraticSpline(knots=3, interval=2))
    elif name == "bnaf":
        d = flows.block_neural_autoregressive_flow(key, base_dist=base, cond_dim=cond, nn_depth=1, nn_block_dim=2,
                                                   flow_layers=layers, invert=invert)
    elif name == "bnaf_d2":  # two hidden layers: the conditional term must enter the two copies of the layer loop identically
        d = flows.block_neural_autoregressive_flow(key, base_dist=base, cond_dim=cond, nn_depth=2, nn_block_dim=2,
                                                   flow_layers=1, invert=invert)
    elif name == "planar":
        d = flows.planar_flow(key, base_dist=base, cond_dim=cond, flow_layers=layers, invert=invert, negative_slope=0.1,
                              **({"width_size": 3, "depth": 1} if cond else {}))
    elif name == "planar_tanh":
        d = flows.planar_flow(key, base_dist=base, cond_dim=cond, flow_layers=layers, invert=invert,
                              **({"width_size": 3, "depth": 1} if cond else {}))
    elif name == "tri_spline":
        d = flows.triangular_spline_flow(key, base_dist=base, cond_dim=cond, flow_layers=layers, knots=3, invert=invert)
    else:
        raise KeyError(name)
    return perturb(d, level, seed, scale=scale)


def factory_info(name, invert, cond, dim=2):
    from mc.grammar import Info, _full

    fwd, inv = True, True
    nf = ni = False
    if name == "planar_tanh":
        fwd, inv = (False, True) if invert else (True, False)
    if name in ("bnaf", "bnaf_d2"):
        nf, ni = (True, False) if invert else (False, True)
    return Info((dim,), None if cond is None else (cond,), _full((dim,), "R"), _full((dim,), "R"), fwd, inv, nf, ni)


def classify_point(x, consts, dtype):
    xs = np.asarray(x, float).ravel()
    for c in consts:
        c = float(dtype(c))
        lo, hi = float(np.nextafter(dtype(c), dtype(-np.inf))), float(np.nextafter(dtype(c), dtype(np.inf)))
        if np.any((xs >= lo) & (xs <= hi)):
            return "boundary"
    if np.any(np.abs(xs) >= 1e2):
        return "large"
    return "generic"


def judge_roundtrip(b, ii, X, c, direction, dtype, consts, has_conditioner=False):
    """direction 'fwd': x -> transform -> inverse; 'inv': y -> inverse -> transform. Returns dict."""
    from mc import battery as bt

    B_ = bt.bundles()
    eps = float(np.finfo(dtype).eps)
    first, second = ("fwd", "inv") if direction == "fwd" else ("inv", "fwd")
    num_first = ii.num_fwd if direction == "fwd" else ii.num_inv
    num_second = ii.num_inv if direction == "fwd" else ii.num_fwd
    y, y2, ld1, Jraw = bt.run_padded(B_[first + ("" if num_first else "_jac")], b, X, c)
    fin = np.isfinite(y.reshape(y.shape[0], -1)).all(axis=1) & np.isfinite(X.reshape(X.shape[0], -1)).all(axis=1)
    ysafe = np.where(fin.reshape((-1,) + (1,) * (y.ndim - 1)), y, X)  # keep the second call finite on skipped rows
    if num_first and num_second:
        return None
    x1, x1b, ld2, J2raw = bt.run_padded(B_[second + ("" if num_second else "_jac")], b, ysafe, c)
    # Jacobian of the FIRST map at X, taken through a closed-form direction
    if not num_first:
        J = bt.mat(Jraw, ii.shape)
        Jinv, cond, ok = bt.safe_inv(J)
    else:
        Jinv = bt.mat(J2raw, ii.shape)
        J, cond, ok = bt.safe_inv(Jinv)
    nx, ny = bt.vec_inf(X), bt.vec_inf(y)
    m = np.maximum(np.maximum(nx, ny), 1.0)
    nJinv = np.where(ok, bt.inf_norm_rows(np.nan_to_num(Jinv)), np.inf)
    nJ = np.where(ok, bt.inf_norm_rows(np.nan_to_num(J)), np.inf)
    bound = K * eps * (m + nJinv * m)
    if num_first or num_second:
        ntol = max(1e-7, 8 * eps)
        bound = bound + 32 * ntol * (1 + np.where(ok, cond, 0)) * (1 + nJ + nJinv) * m
    # a NaN image of a finite, moderate input of the (known) domain is never legitimate (overflow gives inf, and only
    # for large magnitudes): report it instead of skipping the row
    xin = np.isfinite(X.reshape(X.shape[0], -1)).all(axis=1) & (nx < 1e2)
    nan_rows = np.nonzero(xin & np.isnan(y.reshape(y.shape[0], -1)).any(axis=1))[0]
    err = bt.vec_inf(x1 - X)
    # a point whose admissible error exceeds 1% of the data scale is ill-conditioned in this dtype
    # (e.g. images that underflow): it is skipped and counted, never judged
    judged = fin & ok & (K * eps * nJinv <= 1e-2)
    if has_conditioner:
        # the transformer parameters of coupling / autoregressive layers are network outputs that grow with the input:
        # |x| >= 1e3 drives them far outside the property's box of bounded raw parameters (a float32 spline with raw
        # parameters ~1e4 has bins of zero width), so those rows are skipped and counted, not judged
        judged &= (np.maximum(nx, ny) < 1e3)
    bad = judged & ~(err <= bound)
    # plain vs and-log-det variants (same computation)
    veq1 = bt.vec_inf(np.nan_to_num(y - y2, nan=0.0, posinf=0.0, neginf=0.0))
    same_nan1 = (np.isnan(y) == np.isnan(y2)).reshape(y.shape[0], -1).all(axis=1)
    tol1 = 64 * eps * (1 + m) * (1 + np.where(ok, np.minimum(nJ, 1e8), 1.0))
    badv1 = fin & (~(veq1 <= tol1) | ~same_nan1)
    veq2 = bt.vec_inf(np.nan_to_num(x1 - x1b, nan=0.0, posinf=0.0, neginf=0.0))
    tol2 = 64 * eps * (1 + m) * (1 + np.where(ok, np.minimum(nJinv, 1e8), 1.0))
    if num_second:
        tol2 = tol2 + bound
    badv2 = judged & ~(veq2 <= tol2)
    moved = judged & (bt.vec_inf(y - X) > 1e-6)
    ratio = float(np.max(np.where(judged & ~bad, err / np.maximum(bound, 1e-300), 0.0))) if judged.any() else 0.0
    return {
        "n": int(X.shape[0]), "judged": int(judged.sum()), "skipped": int((~judged).sum()), "moved": int(moved.sum()),
        "bad": np.nonzero(bad)[0], "badv1": np.nonzero(badv1)[0], "badv2": np.nonzero(badv2)[0], "err": err, "bound": bound,
        "y": y, "x1": x1, "y2": y2, "x1b": x1b, "ratio": ratio, "first": first, "second": second, "nan_rows": nan_rows,
    }


def _run_inverter(case):
    """BlockAutoregressiveNetwork with AutoregressiveBisectionInverter(tol=t, lower, upper): inverse(transform(x)) must come back
    within the configured tolerance, propagated through the triangular Jacobian: err_0 <= tol, err_i <= tol + sum_j<i |J_ij| err_j / J_ii."""
    import equinox as eqx
    import jax
    import jax.numpy as jnp
    import jax.random as jr

    import flowjax.bijections as B
    from flowjax.bisection_search import AutoregressiveBisectionInverter
    from mc.params import perturb

    dim, cond, tol, seed = case["dim"], case["cond"], case["tol"], case["seed"]
    viols, outcomes = [], {}
    transitions = nontrivial = 0
    digest = hashlib.sha1()
    max_ratio = 0.0
    sample = None
    pts = [-20.0, -6.0, -3.5, -1.0, -0.2, 0.0, 0.3, 1.7, 3.0, 4.5, 8.0, 30.0]  # LeakyTanh(3) tails (slope ~0.01) and centre
    X = np.stack([np.roll(np.asarray(pts), 5 * j)[: len(pts)] for j in range(dim)], axis=1)
    c = None if cond is None else jnp.asarray([0.4, -1.1])
    for depth in (1, 2):
        for (lo, hi) in ((-10.0, 10.0), (-0.5, 0.5)):
            for level in (0, 1):
                inv = AutoregressiveBisectionInverter(lower=lo, upper=hi, tol=tol)
                b = B.BlockAutoregressiveNetwork(jr.PRNGKey(seed + 3), dim=dim, cond_dim=cond, depth=depth, block_dim=2, inverter=inv)
                bp = perturb(b, level, seed, scale=0.5)
                # the bracket is a leaf of the model: keep the configured one
                b = eqx.tree_at(lambda m: (m.inverter.lower, m.inverter.upper), bp, (b.inverter.lower, b.inverter.upper))
                f = eqx.filter_jit(lambda b, X: jax.vmap(lambda x: (b.transform(x, c), b.inverse(b.transform(x, c), c), b.inverse(b.transform_and_log_det(x, c)[0], c),
                                                                     jax.jacfwd(lambda x: b.transform(x, c))(x)))(X))
                Y, Xr, Xr2, J = (np.asarray(a, float) for a in f(b, jnp.asarray(X)))
                digest.update(np.ascontiguousarray(np.round(Xr, 6)).tobytes())
                for n in range(X.shape[0]):
                    transitions += 1
                    nontrivial += 1
                    if not (np.isfinite(Y[n]).all() and np.isfinite(J[n]).all() and np.all(np.diag(J[n]) > 1e-6)):
                        outcomes["skipped-flat-or-nonfinite"] = outcomes.get("skipped-flat-or-nonfinite", 0) + 1
                        continue
                    bound = np.zeros(dim)
                    for i in range(dim):
                        bound[i] = 1.05 * tol + 1e-9 * (1 + abs(X[n, i])) + (1.5 * sum(abs(J[n, i, j]) * bound[j] for j in range(i)) / J[n, i, i] + 0.25 * tol if i else 0.0)  # slack for the curvature over an O(tol) step
                    for nm, xr in (("inverse(transform(x))", Xr[n]), ("inverse(transform_and_log_det(x)[0])", Xr2[n])):
                        err = np.abs(xr - X[n])
                        ratio = float(np.max(err / bound))
                        max_ratio = max(max_ratio, ratio if np.isfinite(ratio) else 0.0)
                        if not np.all(err <= bound):
                            i = int(np.argmax(err / bound))
                            viols.append({"sig": f"C01|BNAF+inverter|f64|configured-tol|coord{'0' if i == 0 else '>0'}",
                                          "msg": f"BlockAutoregressiveNetwork(dim={dim}, cond={cond}, depth={depth}) with AutoregressiveBisectionInverter(lower={lo}, upper={hi}, tol={tol:g}) level {level}: "
                                                 f"{nm} at x={X[n].tolist()} returns {xr.tolist()}: coordinate {i} is off by {err[i]:.3g} > {bound[i]:.3g} (configured tolerance propagated through the triangular Jacobian)",
                                          "detail": {"x": X[n].tolist(), "depth": depth, "interval": [lo, hi], "level": level}})
                            break
                o = f"inverter:depth={depth}"
                outcomes[o] = outcomes.get(o, 0) + 1
                if sample is None:
                    sample = {"x": X[3].tolist(), "inverse(transform(x))": Xr[3].tolist(), "tol": tol}
    seen, out = set(), []
    for v in viols:
        if v["sig"] not in seen:
            seen.add(v["sig"])
            v["msg"] += f"  [{sum(1 for w in viols if w['sig'] == v['sig'])} occurrences]"
            out.append(v)
    return {"transitions": transitions, "traces": transitions, "states": 1, "nontrivial": nontrivial, "violations": out, "outcomes": outcomes,
            "skipped": {}, "max_ratio": max_ratio, "digest": digest.hexdigest(), "sample": sample}


def run_case(case):
    import jax

    from mc import battery as bt
    from mc import grammar as g

    if case.get("inverter"):
        return _run_inverter(case)

    dtype = bt.np_dtype()
    tier, seed = case["tier"], case["seed"]
    levels = [0, 1] if tier == "quick" else [0, 1, 2]
    ncond = 2 if tier == "quick" else 3
    if "factory" in case:
        fdim = case.get("dim", 2)
        ii = factory_info(case["factory"], case["invert"], case["cond"], dim=fdim)
        cls = f"factory:{case['factory']}" + ("" if fdim == 2 else f"[dim={fdim}]")
        builder = lambda lvl: build_factory(case["factory"], case["invert"], case["cond"], seed, lvl, dim=fdim).bijection  # noqa: E731
    else:
        spec = case["spec"]
        ii = g.info(spec)
        cls = g._cls(spec)
        builder = lambda lvl: g.build(spec, 0, lvl, seed)  # noqa: E731
    viols, outcomes, skipped = [], {}, {}
    transitions = nontrivial = 0
    max_ratio = 0.0
    digest = hashlib.sha1()
    sample = None
    dt = "f64" if dtype == np.float64 else "f32"
    has_cond_net = "factory" in case or any(k in case["id"] for k in ('"k":"MAF"', '"k":"Coupling"', '"k":"Planar"', '"k":"BNAF"'))

    def add(sig_tail, msg, detail):
        viols.append({"sig": f"C01|{cls}|{dt}|{sig_tail}", "msg": msg, "detail": detail})

    for level in levels:
        try:
            b = builder(level)
        except Exception as e:  # construction of a well-typed expression must succeed
            add("construct", f"constructing {case['id']} level {level} raised {type(e).__name__}: {e}", {"level": level})
            continue
        if b.shape != ii.shape or b.cond_shape != ii.cond_shape:
            # declared shapes are C08's business; without them the alphabet cannot be formed
            skipped["declared-shape-mismatch(C08)"] = skipped.get("declared-shape-mismatch(C08)", 0) + 1
            continue
        consts = bt.boundary_constants(b)
        for ci, c in enumerate(bt.conditions(ii.cond_shape, dtype, ncond)):
            runs = []
            dom_known = not np.any(ii.dom == "X")
            cod_known = not np.any(ii.cod == "X")
            try:
                if ii.fwd and ii.inv:
                    if dom_known:
                        X = bt.input_batch(ii.dom, consts, dtype)
                        r = judge_roundtrip(b, ii, X, c, "fwd", dtype, consts, has_cond_net)
                        if r is not None:
                            runs.append(("dom->cod->dom", X, r))
                            # image points: y = f(x), transform(inverse(y)) == y
                            fin = np.isfinite(r["y"].reshape(r["y"].shape[0], -1)).all(axis=1)
                            if fin.any():
                                # same batch size as X (no recompilation); rows without a finite image are masked
                                Yimg = np.where(fin.reshape((-1,) + (1,) * (X.ndim - 1)), r["y"], r["y"][np.argmax(fin)])
                                r2 = judge_roundtrip(b, ii, Yimg, c, "inv", dtype, consts, has_cond_net)
                                if r2 is not None:
                                    runs.append(("image->dom->image", Yimg, r2))
                    if cod_known:
                        Y = bt.input_batch(ii.cod, consts, dtype)
                        r = judge_roundtrip(b, ii, Y, c, "inv", dtype, consts, has_cond_net)
                        if r is not None:
                            runs.append(("cod->dom->cod", Y, r))
                    if not dom_known and not cod_known:
                        skipped["domain-unknown"] = skipped.get("domain-unknown", 0) + 1
                else:
                    # one direction only: it must say so for the other, and its two variants must agree
                    have, miss = ("fwd", "inv") if ii.fwd else ("inv", "fwd")
                    codes = ii.dom if ii.fwd else ii.cod
                    if not np.any(codes == "X"):
                        X = bt.input_batch(codes, consts, dtype)
                        B_ = bt.bundles()
                        y, y2, _, _ = bt.run_padded(B_[have], b, X, c)
                        transitions += X.shape[0]
                        d = bt.vec_inf(np.nan_to_num(y - y2))
                        badrows = np.nonzero(~(d <= 64 * float(np.finfo(dtype).eps) * (1 + bt.vec_inf(np.nan_to_num(y)))))[0]
                        for i in badrows[:2]:
                            add(f"variants|{have}", f"{cls} level {level}: plain vs and_log_det point differ at x={X[i].tolist()}: {y[i].tolist()} vs {y2[i].tolist()}",
                                {"level": level, "cond": ci, "x": X[i].tolist()})
                        meth = (b.inverse if miss == "inv" else b.transform)
                        try:
                            meth(X[0], c)
                            add(f"missing-direction|{miss}", f"{cls}: {miss} direction is not implemented by the leaf yet the call returned a value", {})
                        except NotImplementedError:
                            outcomes["notimplemented-ok"] = outcomes.get("notimplemented-ok", 0) + 1
            except Exception as e:
                add(f"raises|{type(e).__name__}", f"{cls} level {level} cond {ci}: {type(e).__name__}: {str(e)[:300]}", {"level": level, "cond": ci})
                continue
            for name, X, r in runs:
                transitions += r["n"]
                nontrivial += r["moved"]
                skipped["ill-conditioned-or-overflow"] = skipped.get("ill-conditioned-or-overflow", 0) + r["skipped"]
                max_ratio = max(max_ratio, r["ratio"])
                digest.update(np.ascontiguousarray(np.nan_to_num(r["x1"])).tobytes())
                o = f"{name}:{'ok' if not len(r['bad']) else 'BAD'}"
                outcomes[o] = outcomes.get(o, 0) + 1
                if sample is None and r["judged"]:
                    i = int(np.argmax(r["err"] * (r["err"] <= r["bound"])))
                    sample = {"direction": name, "level": level, "x": X[i].tolist(), "image": r["y"][i].tolist(),
                              "back": r["x1"][i].tolist(), "err": float(r["err"][i]), "bound": float(r["bound"][i])}
                if name != "image->dom->image":  # image points may legitimately leave the domain of the inverse by rounding
                    for i in r["nan_rows"][:1]:
                        add(f"{name}|nan-image|{classify_point(X[i], consts, dtype)}",
                            f"{cls} level {level} cond#{ci}: {r['first']}({X[i].tolist()}) = {r['y'][i].tolist()} (NaN image of a finite in-domain input; {len(r['nan_rows'])} such points)",
                            {"level": level, "cond": ci, "x": X[i].tolist(), "direction": name})
                seen_kinds = set()
                for i in r["bad"]:
                    kind = classify_point(X[i], consts, dtype)
                    if kind in seen_kinds:
                        continue
                    seen_kinds.add(kind)
                    add(f"{name}|{kind}",
                        f"{cls} level {level} cond#{ci}: {name} at {X[i].tolist()}: {r['first']} -> {r['y'][i].tolist()} -> {r['second']} -> {r['x1'][i].tolist()} "
                        f"(err {r['err'][i]:.3g} > bound {r['bound'][i]:.3g}; {len(r['bad'])} such points)",
                        {"level": level, "cond": ci, "x": X[i].tolist(), "direction": name})
                for tag, rows, a1, a2 in (("variants|" + r["first"], r["badv1"], r["y"], r["y2"]), ("variants|" + r["second"], r["badv2"], r["x1"], r["x1b"])):
                    for i in rows[:1]:
                        add(tag, f"{cls} level {level}: plain and and_log_det points differ at input {X[i].tolist()}: {a1[i].tolist()} vs {a2[i].tolist()}",
                            {"level": level, "cond": ci, "x": X[i].tolist()})
    return {
        "transitions": transitions, "traces": transitions, "states": 1, "nontrivial": nontrivial, "violations": viols,
        "outcomes": outcomes, "skipped": skipped, "max_ratio": max_ratio, "digest": digest.hexdigest(), "sample": sample,
    }
