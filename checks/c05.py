"""C05 - named distribution families match their textbook densities and samplers.

Reference = scipy.stats (float64). Enumerated: family x broadcast pairing of parameter shapes x value grid x
evaluation points (interior ladder, support edges and their float neighbours, outside, +-1e6); accessors;
fixed-key sampler vs scipy cdf (Kolmogorov distance below the DKW bound for alpha = 1e-9); mixtures."""
import hashlib
import itertools

import numpy as np

PROPERTY = "C05"
HORIZON_S = {"quick": 600.0, "thorough": 1800.0}
RULE = (
    "state = (family, parameter-shape pairing, value pattern); transition = one log_prob evaluation vs scipy, one "
    "accessor comparison, or one sampler goodness-of-fit statistic; non-trivial = parameters differ from the "
    "standard member (loc != 0 or scale != 1) and the point is not trivially far in the tail"
)
ASSUMPTIONS = [
    "scipy.stats float64 is the textbook reference; log-densities agree to 1e-9*(1+|ref|) per event entry",
    "sampler clause: fixed key (from VERIF_SEED), N=1e5 per coordinate, Kolmogorov distance <= sqrt(ln(2/1e-9)/(2N)) = 0.01035 (a-priori false-alarm probability < 1e-9 per statistic)",
]
PAIRS = [((), ()), ((3,), ()), ((), (3,)), ((3,), (3,)), ((2, 1), (3,)), ((2, 3), (2, 3)), ((2, 3), ()), ((1, 3), (2, 1))]
LOCS = [-3.0, 0.0, 2.5]
SCALES = [1e-3, 0.5, 1.0, 40.0]
DFS = [0.5, 3.0, 50.0]
RATES = [0.1, 1.0, 30.0]
FAMS = ["Normal", "LogNormal", "Gumbel", "Cauchy", "Laplace", "Logistic", "StudentT", "Uniform", "Exponential"]
T = [-30.0, -3.0, -0.5, 0.0, 0.1, 1.0, 8.0, 1e3]
N = 100_000
TINY = float(np.finfo(np.float64).tiny)  # XLA CPU flushes denormals to zero: the smallest NORMAL number is the neighbour of 0
DKW = float(np.sqrt(np.log(2 / 1e-9) / (2 * N)))


def bounds(tier):
    return {"families": FAMS + ["MultivariateNormal", "VmapMixture(Normal|StudentT|Uniform)", "StandardNormal"], "shape_pairs": PAIRS,
            "loc": LOCS, "scale": SCALES, "df": DFS, "rate": RATES, "eval_t": T, "sampler_N": N, "dkw_bound": DKW,
            "scalar_full_grid": "loc x scale (x df) full product for scalar parameters", "exhaustive_within_bounds": True}


def enumerate_cases(tier, seed):
    cases = []
    for fam in FAMS:
        for pi in range(len(PAIRS)):
            for pat in range(2 if tier == "quick" else 4):
                cases.append({"id": f"{fam}|pair={pi}|pat={pat}", "leg": "family", "fam": fam, "pair": pi, "pat": pat, "x64": True, "seed": seed})
        cases.append({"id": f"{fam}|scalar-grid", "leg": "grid", "fam": fam, "x64": True, "seed": seed})
    for i in range(3):
        cases.append({"id": f"MVN|{i}", "leg": "mvn", "i": i, "x64": True, "seed": seed})
    for comp in ("Normal", "StudentT", "Uniform"):
        for wi in range(3):
            cases.append({"id": f"Mixture|{comp}|w={wi}", "leg": "mix", "comp": comp, "wi": wi, "x64": True, "seed": seed})
    cases.append({"id": "StandardNormal", "leg": "std", "x64": True, "seed": seed})
    # many independent dimensions with scales far from 1 (sum of logs vs log of a product), both dtypes
    for x64 in (True, False):
        for fam in ("Normal", "Laplace", "Uniform", "LogNormal", "Exponential", "StudentT"):
            cases.append({"id": f"highdim|{fam}|x64={int(x64)}", "leg": "highdim", "fam": fam, "x64": x64, "seed": seed})
    return cases


def _cyc(vals, shape, off):
    n = max(1, int(np.prod(shape)))
    return np.asarray([vals[(i + off) % len(vals)] for i in range(n)], float).reshape(shape)


def make(fam, a, b, df=None):
    """a, b: numpy parameter arrays (loc/scale, minval/width, rate). Returns (flowjax dist, scipy frozen, accessor dict)."""
    import jax.numpy as jnp
    from scipy import stats

    import flowjax.distributions as D

    ja, jb = jnp.asarray(a), jnp.asarray(b)
    if fam == "Normal":
        return D.Normal(ja, jb), stats.norm(a, b), {"loc": a, "scale": b}
    if fam == "LogNormal":
        return D.LogNormal(ja, jb), stats.lognorm(s=b, scale=np.exp(a)), {}
    if fam == "Gumbel":
        return D.Gumbel(ja, jb), stats.gumbel_r(a, b), {"loc": a, "scale": b}
    if fam == "Cauchy":
        return D.Cauchy(ja, jb), stats.cauchy(a, b), {"loc": a, "scale": b}
    if fam == "Laplace":
        return D.Laplace(ja, jb), stats.laplace(a, b), {"loc": a, "scale": b}
    if fam == "Logistic":
        return D.Logistic(ja, jb), stats.logistic(a, b), {"loc": a, "scale": b}
    if fam == "StudentT":
        return D.StudentT(jnp.asarray(df), ja, jb), stats.t(df, a, b), {"loc": a, "scale": b, "df": df}
    if fam == "Uniform":
        return D.Uniform(ja, ja + jb), stats.uniform(a, b), {"minval": a, "maxval": a + b}
    if fam == "Exponential":
        return D.Exponential(jb), stats.expon(scale=1 / b), {"rate": b}
    raise KeyError(fam)


def _mixed(points, shape):
    """Points whose coordinates are taken alternately from two different points (one coordinate inside the support, its neighbour
    outside): the density of independent dimensions is a SUM over coordinates, -inf as soon as one of them is outside."""
    n = int(np.prod(shape)) if shape else 1
    if n < 2:
        return []
    mask = (np.arange(n) % 2 == 0).reshape(shape)
    head = points[:8]
    return [np.where(mask, head[i], head[j]) for i in range(len(head)) for j in range(len(head)) if i != j]


def eval_points(fam, a, b, shape):
    """(P, *shape) evaluation points: interior ladder, support edges and float neighbours, outside, +-1e6."""
    A, Bb = np.broadcast_to(a, shape), np.broadcast_to(b, shape)
    pts = []
    if fam == "Uniform":
        for t in (-0.5, 0.0, 1e-9, 0.3, 0.999999, 1.0, 1.5):
            pts.append(A + Bb * t)
        pts += [np.nextafter(A, -np.inf), np.nextafter(A, np.inf), np.nextafter(A + Bb, -np.inf), np.nextafter(A + Bb, np.inf)]
    elif fam == "Exponential":
        for t in (-1.0, 0.0, 1e-12, 0.1, 1.0, 8.0, 50.0):
            pts.append(t / Bb)
        pts += [np.full(shape, -TINY), np.full(shape, TINY)]
    elif fam == "LogNormal":
        for t in T[:-1]:
            pts.append(np.exp(np.clip(A + Bb * t, -700, 700)))
        pts += [np.zeros(shape), np.full(shape, -1.0), np.full(shape, TINY)]
    else:
        for t in T:
            pts.append(A + Bb * t)
    pts += [np.full(shape, 1e6), np.full(shape, -1e6)]
    # one mixed point: different ladder position per entry
    n = max(1, int(np.prod(shape)))
    mix = np.asarray([pts[(3 * i + 1) % len(pts)].reshape(-1)[i] for i in range(n)]).reshape(shape)
    pts.append(mix)
    pts = [np.broadcast_to(np.asarray(p, float), shape) for p in pts]
    pts = pts + _mixed(pts, shape)
    return np.stack([np.asarray(p, float).reshape(shape) for p in pts])


def run_case(case):
    import equinox as eqx
    import jax
    import jax.numpy as jnp
    import jax.random as jr
    from scipy import special, stats

    import flowjax.distributions as D

    seed = case["seed"]
    viols, seen = [], {}
    tr = nt = 0
    digest = hashlib.sha1()
    sample = None
    max_ratio = 0.0
    key = jr.PRNGKey(1000 + seed)

    def add(tail, msg):
        sig = f"C05|{case.get('fam', case['leg'])}|{tail}"
        seen[sig] = seen.get(sig, 0) + 1
        if seen[sig] <= 1:
            viols.append({"sig": sig, "msg": msg, "detail": {k: v for k, v in case.items() if k != "id"}})

    def cmp_logprob(d, ref_fn, X, shape, what, edge=None, restricted=False):
        nonlocal tr, nt, sample, max_ratio
        lp = np.asarray(d.log_prob(jnp.asarray(X)), float)
        with np.errstate(all="ignore"):
            ref = np.asarray(ref_fn(X), float)
            ref = ref.reshape(X.shape[0], -1).sum(1) if ref.ndim > 1 or shape != () else ref.reshape(X.shape[0])
        tr += X.shape[0]
        digest.update(np.ascontiguousarray(np.nan_to_num(lp)).tobytes())
        if lp.shape != (X.shape[0],):
            add("logprob-shape", f"{case['id']}: log_prob of points with event shape {shape} has shape {lp.shape[1:]}")
            return
        if np.isnan(lp).any():
            i = int(np.argmax(np.isnan(lp)))
            add("nan", f"{case['id']} {what}: log_prob({X[i].tolist()}) is NaN")
        ref = np.where(np.isnan(ref), -np.inf, ref)
        n_ev = max(1, int(np.prod(shape)))
        with np.errstate(invalid="ignore"):
            err = np.abs(lp - ref)
        tol = 1e-9 * n_ev * (1 + np.abs(ref))
        if restricted:
            tol = np.where(np.isfinite(ref), tol, 0.0)  # outside a restricted support the reference -inf must be met exactly, not "within inf"
        # (for full-support families an infinite reference is an underflow of scipy's own logpdf, e.g. Laplace beyond 745 scales: not judged)
        bad = ~((err <= tol) | (lp == ref))
        bad &= ~np.isnan(lp)
        if edge is not None:
            # exactly on (or within rounding of) an end of the support the density is a convention (measure zero):
            # either the interior value or -inf is accepted there
            bad &= ~(edge & ((lp == -np.inf) | (err <= tol) | ((ref == -np.inf) & np.isfinite(lp))))
        ok = ~bad & np.isfinite(ref)
        if ok.any():
            max_ratio = max(max_ratio, float(np.max(err[ok] / tol[ok])))
        nt += int(np.isfinite(ref).sum())
        if sample is None:
            sample = {"what": what, "x": X[0].tolist(), "flowjax": float(lp[0]), "scipy": float(ref[0])}
        if bad.any():
            i = int(np.argmax(bad))
            add("logprob", f"{case['id']} {what}: log_prob({X[i].tolist()}) = {lp[i]!r}, textbook (scipy) {ref[i]!r} ({int(bad.sum())}/{len(bad)} points)")

    def cmp_access(d, acc, shape):
        nonlocal tr
        for nm, val in acc.items():
            tr += 1
            got = np.asarray(getattr(d, nm), float)
            want = np.broadcast_to(val, shape)
            if got.shape != tuple(shape) or not np.allclose(got, want, rtol=1e-12, atol=0):
                add(f"accessor|{nm}", f"{case['id']}: .{nm} = {got.tolist()} but the constructor was given {want.tolist()}")

    def ks(d, cdf, shape, what, sup=None):
        nonlocal tr
        s = np.asarray(d.sample(key, (N,)), float)
        tr += 1
        if s.shape != (N, *shape):
            add("sample-shape", f"{case['id']}: sample(key,(N,)) has shape {s.shape}")
            return
        if not np.isfinite(s).all():
            add("sample-nonfinite", f"{case['id']}: non-finite samples")
            return
        flat = s.reshape(N, -1)
        dmax = 0.0
        for j in range(flat.shape[1]):
            xs = np.sort(flat[:, j])
            F = cdf(xs, j)
            e = np.arange(1, N + 1) / N
            dj = float(max(np.max(np.abs(F - e)), np.max(np.abs(F - (e - 1 / N)))))
            dmax = max(dmax, dj)
            if dj > DKW:
                add(f"sampler|{what}", f"{case['id']}: samples (key {1000 + seed}, N={N}) of coordinate {j} have Kolmogorov distance {dj:.4f} > {DKW:.4f} from the textbook cdf")
                break
        # same key -> same draw
        if not np.array_equal(np.asarray(d.sample(key, (7,))), np.asarray(d.sample(key, (7,)))):
            add("sampler|same-key", f"{case['id']}: the same key gave different samples")
        return dmax

    leg = case["leg"]
    if leg in ("family", "grid"):
        fam = case["fam"]
        configs = []
        if leg == "family":
            sa, sb = PAIRS[case["pair"]]
            pat = case["pat"]
            a = _cyc(LOCS, sa, pat)
            b = _cyc(SCALES if fam != "Exponential" else RATES, sb if fam != "Exponential" else np.broadcast_shapes(sa, sb), pat + 1)
            df = _cyc(DFS, sb, pat + 2) if fam == "StudentT" else None
            configs.append((a, b, df))
        else:
            for lo, sc in itertools.product(LOCS, SCALES if fam != "Exponential" else RATES):
                for df in (DFS if fam == "StudentT" else [None]):
                    configs.append((np.asarray(lo), np.asarray(sc), None if df is None else np.asarray(df)))
        for ci, (a, b, df) in enumerate(configs):
            shape = np.broadcast_shapes(a.shape, b.shape) if fam != "Exponential" else b.shape
            try:
                d, ref, acc = make(fam, a, b, df)
            except Exception as e:
                add(f"construct|{type(e).__name__}", f"{case['id']}: valid parameters rejected: {type(e).__name__}: {str(e)[:200]}")
                continue
            if tuple(d.shape) != tuple(shape):
                add("shape", f"{case['id']}: shape {d.shape}, broadcast of the parameters is {shape}")
                continue
            X = eval_points(fam, a, b, shape)
            edge = None
            A2, B2 = np.broadcast_to(a, shape), np.broadcast_to(b, shape)
            if fam == "Uniform":
                edge = ((np.abs(X - A2) <= 4e-16 * (np.abs(A2) + B2)) | (np.abs(X - A2 - B2) <= 4e-16 * (np.abs(A2) + B2))).reshape(X.shape[0], -1).any(1)
            elif fam in ("Exponential", "LogNormal"):
                edge = (np.abs(X) <= 1e-290).reshape(X.shape[0], -1).any(1)  # 0 and the values that flush to 0 once multiplied by the rate
            cmp_logprob(d, ref.logpdf, X, shape, f"params a={a.tolist()} b={b.tolist()} df={None if df is None else df.tolist()}", edge=edge,
                        restricted=fam in ("Uniform", "Exponential", "LogNormal"))
            cmp_access(d, acc, shape)
            if leg == "family" and acc:
                # non-initial states: every trainable leaf moved (as training does); the density must be the textbook density of
                # the parameters the ACCESSORS now report (nothing computed once at construction may go stale)
                from flowjax.wrappers import unwrap
                from mc import params as P

                for lvl in (1, 2):
                    dl = unwrap(P.perturb(d, lvl, seed))
                    rd = {k_: np.asarray(getattr(dl, k_), float) for k_ in acc}
                    if fam == "Uniform":
                        a2, b2, df2 = rd["minval"], rd["maxval"] - rd["minval"], None
                    elif fam == "Exponential":
                        a2, b2, df2 = a, rd["rate"], None
                    else:
                        a2, b2, df2 = rd["loc"], rd["scale"], rd.get("df")
                    if not (np.all(np.isfinite(b2)) and np.all(b2 > 0) and (df2 is None or np.all(df2 > 0))):
                        add("trained-accessor", f"{case['id']} level {lvl}: after moving every trainable leaf the accessors report an invalid parameter {rd}")
                        continue
                    ref2 = make(fam, np.broadcast_to(a2, shape), np.broadcast_to(b2, shape), None if df2 is None else np.broadcast_to(df2, shape))[1]
                    X2 = eval_points(fam, np.broadcast_to(a2, shape), np.broadcast_to(b2, shape), shape)
                    edge2 = None
                    if fam == "Uniform":
                        A3, B3 = np.broadcast_to(a2, shape), np.broadcast_to(b2, shape)
                        edge2 = ((np.abs(X2 - A3) <= 4e-16 * (np.abs(A3) + B3)) | (np.abs(X2 - A3 - B3) <= 4e-16 * (np.abs(A3) + B3))).reshape(X2.shape[0], -1).any(1)
                    elif fam == "Exponential":
                        edge2 = (np.abs(X2) <= 1e-290).reshape(X2.shape[0], -1).any(1)
                    cmp_logprob(dl, ref2.logpdf, X2, shape, f"trained state {lvl}: accessors " + str({k_: v_.tolist() for k_, v_ in rd.items()}), edge=edge2,
                                restricted=fam in ("Uniform", "Exponential", "LogNormal"))
            if leg == "family" or ci % 4 == 0:
                A_, B_ = np.broadcast_to(a, shape).reshape(-1), np.broadcast_to(b, shape).reshape(-1)
                DF_ = None if df is None else np.broadcast_to(df, shape).reshape(-1)

                def cdf(xs, j, fam=fam):
                    return make_scalar_cdf(fam, A_[j], B_[j], None if DF_ is None else DF_[j])(xs)

                ks(d, cdf, shape, "family")
    elif leg == "highdim":
        fam = case["fam"]
        f32 = not case["x64"]
        for dim in (16, 64, 400):
            for scv in (1e-6, 1e-5, 1e-3, 0.05, 20.0, 40.0) if dim == 16 else (1e-3, 0.05, 20.0, 40.0):
                a = np.linspace(-1.0, 1.0, dim)
                b = np.full(dim, scv)
                df = np.full(dim, 4.0) if fam == "StudentT" else None
                d, ref, acc = make(fam, a.astype(np.float32) if f32 else a, b.astype(np.float32) if f32 else b, df)
                A64, B64 = (np.asarray(a, np.float32).astype(float), np.asarray(b, np.float32).astype(float)) if f32 else (a, b)
                _, ref64, _ = make(fam, A64, B64, df)
                # the positive parameter must come back through its accessor to (a few ulp of) the precision of the dtype, also where
                # it is tiny: the constructors store it through an inverse softplus, which cancels for small arguments if written naively
                accname = {"Exponential": "rate", "Uniform": None}.get(fam, "scale")
                if accname is not None and hasattr(d, accname):
                    got_b = np.asarray(getattr(d, accname), float)
                    rel = float(np.max(np.abs(got_b - B64) / B64))
                    tr += 1
                    if not rel <= (2e-5 if f32 else 1e-11):
                        add("accessor-small-parameter", f"{fam}({accname}={scv}) in {'float32' if f32 else 'float64'}: .{accname} comes back as {got_b.ravel()[0]!r} (relative error {rel:.2e})")
                pts = []
                for t in (0.3, -1.2):
                    if fam == "Uniform":
                        pts.append(A64 + B64 * 0.37)
                    elif fam == "Exponential":
                        pts.append(abs(t) / B64)
                    elif fam == "LogNormal":
                        pts.append(np.exp(A64 + B64 * t))
                    else:
                        pts.append(A64 + B64 * t)
                X = np.stack(pts)
                if f32:
                    X = X.astype(np.float32).astype(float)
                lp = np.asarray(d.log_prob(jnp.asarray(X, jnp.float32 if f32 else jnp.float64)), float)
                want = ref64.logpdf(X).sum(-1)
                tr += len(X)
                nt += len(X)
                tol = (2e-4 if f32 else 1e-9) * (1 + np.abs(want)) * (50 if f32 and fam in ("Uniform", "LogNormal", "Exponential") else 1)
                badm = ~(np.abs(lp - want) <= tol)
                if badm.any():
                    i = int(np.argmax(badm))
                    add("logprob-highdim", f"{fam} with {dim} independent dimensions, scale/rate {scv} ({'float32' if f32 else 'float64'}): log_prob = {lp[i]!r}, textbook sum over dimensions = {want[i]!r}")
        sample = {"leg": "highdim", "family": fam}
    elif leg == "std":
        for shape in [(), (3,), (2, 3)]:
            d = D.StandardNormal(shape)
            X = eval_points("Normal", np.zeros(()), np.ones(()), shape)
            cmp_logprob(d, stats.norm().logpdf, X, shape, f"StandardNormal{shape}")
            ks(d, lambda xs, j: stats.norm.cdf(xs), shape, "StandardNormal")
    elif leg == "mvn":
        covs = [np.asarray([[1.0, 0.3], [0.3, 2.0]]), np.asarray([[4.0, -1.9, 0.0], [-1.9, 1.0, 0.2], [0.0, 0.2, 0.5]]),
                np.asarray([[1e-4, 0.0], [0.0, 1e2]])]
        cov = covs[case["i"]]
        dim = cov.shape[0]
        for loc in (np.asarray(1.5), np.arange(dim) - 0.7):
            d = D.MultivariateNormal(jnp.asarray(loc), jnp.asarray(cov))
            ref = stats.multivariate_normal(np.broadcast_to(loc, (dim,)), cov)
            X = np.stack([np.broadcast_to(loc, (dim,)) + t * np.sqrt(np.diag(cov)) * np.asarray([(-1) ** i for i in range(dim)]) for t in (-5, -1, 0, 0.3, 2, 50)])
            cmp_logprob(d, lambda x: ref.logpdf(x).reshape(-1), X, (), f"MVN loc={loc.tolist()}")
            tr += 2
            if not np.allclose(np.asarray(d.covariance), cov, rtol=1e-10, atol=1e-14):
                add("accessor|covariance", f"{case['id']}: covariance accessor {np.asarray(d.covariance).tolist()} vs {cov.tolist()}")
            if not np.allclose(np.asarray(d.loc), np.broadcast_to(loc, (dim,)), rtol=1e-12):
                add("accessor|loc", f"{case['id']}: loc accessor")
            s = np.asarray(d.sample(key, (N,)), float)
            tr += 1
            Lc = np.linalg.cholesky(cov)
            z = np.linalg.solve(Lc, (s - np.broadcast_to(loc, (dim,))).T).T  # whitened: iid N(0,1) per coordinate
            for j in range(dim):
                xs = np.sort(z[:, j])
                e = np.arange(1, N + 1) / N
                dj = float(np.max(np.abs(stats.norm.cdf(xs) - e)))
                if dj > DKW + 1 / N:
                    add("sampler|mvn", f"{case['id']}: whitened coordinate {j} of the samples has Kolmogorov distance {dj:.4f} > {DKW:.4f}")
            # cross-moment binds the correlation structure
            emp = np.cov(s.T)
            if not np.allclose(emp, cov, rtol=0.05, atol=0.05 * np.sqrt(np.outer(np.diag(cov), np.diag(cov))).max()):
                add("sampler|mvn-cov", f"{case['id']}: sample covariance {emp.tolist()} vs {cov.tolist()}")
    elif leg == "mix":
        comp = case["comp"]
        W = [np.asarray([1.0, 1.0, 1.0]), np.asarray([0.2, 3.0, 0.8]), np.asarray([5.0, 0.01, 1.0])][case["wi"]]
        locs, scs = np.asarray([-3.0, 0.0, 2.5]), np.asarray([0.5, 1.0, 2.0])
        if comp == "Normal":
            dist = eqx.filter_vmap(D.Normal)(jnp.asarray(locs), jnp.asarray(scs))
            comps = [stats.norm(l, s) for l, s in zip(locs, scs)]
        elif comp == "StudentT":
            dist = eqx.filter_vmap(D.StudentT)(jnp.asarray([3.0, 5.0, 0.8]), jnp.asarray(locs), jnp.asarray(scs))
            comps = [stats.t(df, l, s) for df, l, s in zip([3.0, 5.0, 0.8], locs, scs)]
        else:
            dist = eqx.filter_vmap(D.Uniform)(jnp.asarray(locs), jnp.asarray(locs + scs * 3))
            comps = [stats.uniform(l, 3 * s) for l, s in zip(locs, scs)]
        X = np.asarray([-1e6, -30.0, -3.0, -2.999, -1.0, 0.0, 0.7, 2.5, 4.0, 8.5, 30.0, 1e6])

        def ref_lp(x, w=W):
            with np.errstate(divide="ignore"):
                return special.logsumexp(np.stack([c.logpdf(x) for c in comps]) + np.log(w / w.sum())[:, None], axis=0)

        base = None
        for mult in (1.0, 0.01, 1e3):
            d = D.VmapMixture(dist, jnp.asarray(W * mult))
            cmp_logprob(d, ref_lp, X, (), f"mixture weights {W.tolist()} x {mult}")
            lp = np.asarray(d.log_prob(jnp.asarray(X)), float)
            if base is None:
                base = lp
            else:
                tr += 1
                with np.errstate(invalid="ignore"):
                    if not np.all((np.isfinite(base) & (np.abs(lp - base) <= 1e-9 * (1 + np.abs(base)))) | (lp == base)):
                        add("mixture|rescale", f"{case['id']}: log_prob changed when the weights were rescaled by {mult}")
            tr += 1
            from flowjax.wrappers import unwrap

            lw = np.asarray(unwrap(d).log_normalized_weights, float)
            if abs(np.exp(lw).sum() - 1) > 1e-12 or not np.allclose(np.exp(lw), W / W.sum(), rtol=1e-10):
                add("mixture|weights", f"{case['id']}: exp(log_normalized_weights) = {np.exp(lw).tolist()} for weights {W.tolist()} x {mult}")
        d = D.VmapMixture(dist, jnp.asarray(W))
        ks(d, lambda xs, j: sum(w * c.cdf(xs) for w, c in zip(W / W.sum(), comps)), (), "mixture")
        # non-initial states (every trainable leaf moved, as a training run would): the density must still be a NORMALISED
        # mixture of its components. Component parameters are read back through the accessors; the implied weights are
        # recovered by least squares from the density itself, so nothing is assumed about how the weights are stored.
        from mc import params as P

        Xg = np.linspace(-8.0, 12.0, 81)
        for lvl in (1, 2, 3):
            dl = unwrap(P.perturb(d, lvl, case["seed"]))
            tr += 1
            nt += 1
            cd = dl.dist
            if comp == "Normal":
                cl = [stats.norm(l, s_) for l, s_ in zip(np.asarray(cd.loc, float), np.asarray(cd.scale, float))]
            elif comp == "StudentT":
                cl = [stats.t(f_, l, s_) for f_, l, s_ in zip(np.asarray(cd.df, float), np.asarray(cd.loc, float), np.asarray(cd.scale, float))]
            else:
                cl = [stats.uniform(a_, b_ - a_) for a_, b_ in zip(np.asarray(cd.minval, float), np.asarray(cd.maxval, float))]
                edges = np.concatenate([[c.support()[0], c.support()[1]] for c in cl])
                Xg = Xg[np.min(np.abs(Xg[:, None] - edges[None, :]), axis=1) > 1e-6]  # conventions exactly on an edge differ
            A = np.stack([c.pdf(Xg) for c in cl], axis=1)
            b = np.exp(np.asarray(dl.log_prob(jnp.asarray(Xg)), float))
            w_, *_ = np.linalg.lstsq(A, b, rcond=None)
            resid = float(np.max(np.abs(A @ w_ - b)) / max(b.max(), 1e-300))
            if not np.all(np.isfinite(b)) or resid > 1e-8:
                add("mixture|trained-not-a-mixture", f"{case['id']} level {lvl}: density is not a combination of its component densities (relative residual {resid:.2e})")
            elif abs(w_.sum() - 1) > 1e-7 or np.any(w_ <= 0):
                add("mixture|trained-weights-not-normalised", f"{case['id']} level {lvl}: after moving every trainable leaf the implied component weights are {w_.tolist()} (sum {w_.sum():.6g})")
    return {"transitions": tr, "traces": tr, "states": 1, "nontrivial": nt, "violations": viols,
            "outcomes": {f"{leg}:{'ok' if not viols else 'BAD'}": 1}, "max_ratio": max_ratio, "digest": digest.hexdigest(), "sample": sample}


def make_scalar_cdf(fam, a, b, df):
    from scipy import stats

    return {
        "Normal": lambda: stats.norm(a, b).cdf, "LogNormal": lambda: stats.lognorm(s=b, scale=np.exp(a)).cdf,
        "Gumbel": lambda: stats.gumbel_r(a, b).cdf, "Cauchy": lambda: stats.cauchy(a, b).cdf, "Laplace": lambda: stats.laplace(a, b).cdf,
        "Logistic": lambda: stats.logistic(a, b).cdf, "StudentT": lambda: stats.t(df, a, b).cdf, "Uniform": lambda: stats.uniform(a, b).cdf,
        "Exponential": lambda: stats.expon(scale=1 / b).cdf,
    }[fam]()
