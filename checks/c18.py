"""C18 - finite log-probabilities have finite gradients; log_prob is never NaN.

State = Transformed(base, expression) (both orientations of every leaf, compositions, every factory) x dtype;
transitions = log_prob, its gradient w.r.t. the input and w.r.t. every trainable parameter at every input of the
boundary-directed alphabet (every compared constant, both float neighbours, magnitudes to 1e4), every parameter
level and condition - one compiled program per state."""
import hashlib

import numpy as np

PROPERTY = "C18"
HORIZON_S = {"quick": 900.0, "thorough": 2400.0}
RULE = (
    "state = (base distribution, bijection expression | factory, dtype); transition = one (log_prob, d/dx, d/dparams) "
    "evaluation at one (level, condition, input); non-trivial = input on / next to a constant the formulas compare "
    "against, or |x| >= 100"
)
ASSUMPTIONS = [
    "finite means |log_prob| <= 1e30 (float64) / 1e8 (float32): beyond that the true gradient is not representable in the dtype and an overflow is not a NaN-poisoning defect",
    "inputs are arbitrary reals (not restricted to the support): log_prob must be a number or -inf there",
    "where log_prob needs a numerically inverted direction (BNAF with invert=False) reverse-mode differentiation through the bisection while_loop is not defined by JAX (documented trade-off of that orientation): only the never-NaN clause is checked there",
    "gradients are jax.grad w.r.t. x and w.r.t. the partition the training loops differentiate (is_inexact_array, NonTrainable as leaf)",
]


def bounds(tier):
    return {"expressions": "quick: representative leaves, their Invert, depth-1 trees; thorough: all leaf configurations (both orientations), one per (kind, option, child class) at depth 1-2",
            "bases": ["StandardNormal", "StudentT(df=3) (leaves)"], "families": "10 named families alone and as 2-component mixtures with component separation {1,50,200,1e4} x 2 levels x 2 dtypes", "levels": [0, 1] if tier == "quick" else [0, 1, 2],
            "dtypes": ["float64", "float32 (leaves, Invert(leaf), factories)"], "factories": "8 configs x invert x cond",
            "spline_intervals": "symmetric, asymmetric, not containing 0 (both signs)", "exhaustive_within_bounds": True}


EXTRA_LEAVES = [
    {"k": "RQS", "knots": 3, "interval": [1, 5]}, {"k": "RQS", "knots": 3, "interval": [-5, -1]},
    {"k": "RQS", "knots": 1, "interval": 2}, {"k": "LeakyTanh", "shape": [], "max_val": 3},
    {"k": "Planar", "dim": 2, "cond": None, "slope": None, "w0": True}, {"k": "Planar", "dim": 2, "cond": None, "slope": 0.1, "w0": True},
    {"k": "Planar", "dim": 2, "cond": 2, "slope": 0.1, "w0": True}, {"k": "Planar", "dim": 3, "cond": 2, "slope": None, "w0": True},
    {"k": "RQS", "knots": 5, "interval": [2, 6]}, {"k": "RQS", "knots": 8, "interval": [2, 6]}, {"k": "RQS", "knots": 8, "interval": [-6, -2]},
    {"k": "RQS", "knots": 8, "interval": [0.5, 4]}, {"k": "RQS", "knots": 8, "interval": 3},
    {"k": "LeakyTanh", "shape": [2], "max_val": 1}, {"k": "Flip", "shape": [2]}, {"k": "Identity", "shape": []},
    {"k": "Loc", "shape": [2]}, {"k": "TriAffine", "dim": 2, "lower": False}, {"k": "Planar", "dim": 2, "cond": None, "slope": 1.0},
    {"k": "Coupling", "dim": 2, "cond": None, "tr": "rqs"}, {"k": "BNAF", "dim": 2, "cond": 2, "depth": 2, "bd": 2},
    {"k": "BNAF", "dim": 1, "cond": None, "depth": 0, "bd": 1},
    # tanh(max_val) rounds to exactly 1.0 from max_val ~ 7.9 (float32) / 18.4 (float64): the tanh branch's inverse then sits on arctanh's pole
    {"k": "LeakyTanh", "shape": [], "max_val": 8}, {"k": "LeakyTanh", "shape": [2], "max_val": 10}, {"k": "LeakyTanh", "shape": [], "max_val": 20},
]


def enumerate_cases(tier, seed):
    from checks import c01
    from mc import grammar as g

    specs, _ = g.enumerate_exprs(tier)
    maxd = 1 if tier == "quick" else 2
    leaves = g.dedupe([s for s in specs if "c" not in s] + EXTRA_LEAVES)
    comps = [s for s in specs if 0 < g.info(s).depth <= maxd]
    if tier != "quick":
        comps = g._one_per_kind(comps)
    if tier == "quick":
        # NaN-in-the-unselected-branch defects live in the leaves that branch on values: every composition containing one
        # of them is kept, of the purely smooth compositions two per (combinator, option)
        branchy = ("RQS", "LeakyTanh", "Planar", "MAF", "Coupling", "BNAF", "Exp", "SoftPlus", "Tanh")
        keep, seen_k = [], {}
        for s_ in comps:
            if any(f'"k":"{b_}"' in g.canon(s_) for b_ in ("RQS", "LeakyTanh", "Planar", "MAF", "Coupling", "BNAF")):
                key = (g._cls(s_),)
                lim = 1
            else:
                key = (s_["k"], s_.get("mode"), s_.get("axis"), (s_.get("idx") or {}).get("t"))
                lim = 2
            seen_k[key] = seen_k.get(key, 0) + 1
            if seen_k[key] <= lim:
                keep.append(s_)
        comps = keep
    exprs = g.dedupe(leaves + [{"k": "Invert", "c": s} for s in leaves] + comps)
    cases = []
    for s in exprs:
        ii = g.info(s)
        if not ii.inv:
            continue  # log_prob needs the inverse direction
        shallow = "c" not in s or (s["k"] == "Invert" and "c" not in s["c"])
        bases = ["normal", "studentt"] if (shallow and "c" not in s) else ["normal"]
        for base in bases:
            for x64 in ((True, False) if (shallow and base == "normal") else (True,)):
                cases.append({"id": f"{'f64' if x64 else 'f32'}|{base}|" + g.canon(s), "spec": s, "base": base, "x64": x64,
                              "tier": tier, "seed": seed})
    for f in c01.FACTORIES:
        for inv in (True, False):
            for cond in (None, 2):
                if f == "planar_tanh" and not inv:
                    continue  # forward-only bijection: log_prob is not available in this orientation
                for x64 in (True, False):
                    cases.append({"id": f"{'f64' if x64 else 'f32'}|factory|{f}|invert={int(inv)}|cond={cond}", "factory": f,
                                  "invert": inv, "cond": cond, "x64": x64, "tier": tier, "seed": seed})
    # "for every distribution": the named families on their own and as mixtures whose components are far apart (a component
    # with log-density -inf must not poison the gradient of a finite mixture log-density)
    for fam in FAMILIES:
        for variant, seps in (("single", [0]), ("mix", [1, 50, 200, 10000]), ("mix-wide-weights", [1, 50])):
            if fam == "MultivariateNormal" and variant != "single":
                continue
            for sep in seps:
                for x64 in (True, False):
                    cases.append({"id": f"{'f64' if x64 else 'f32'}|family|{fam}|{variant}|sep={sep}", "family": fam, "variant": variant, "sep": sep,
                                  "x64": x64, "tier": tier, "seed": seed})
    cases.sort(key=lambda c: (0 if "factory" in c else 1, -len(c["id"])))
    return cases


FAMILIES = ["Normal", "LogNormal", "MultivariateNormal", "Uniform", "Gumbel", "Cauchy", "StudentT", "Laplace", "Exponential", "Logistic"]
LADDER = [-1e4, -200.0, -50.0, -3.0, -1e-30, 0.0, 1e-30, 0.5, 1.0, 3.0, 50.0, 200.0, 1e4]


def build_family(fam, variant, sep):
    import equinox as eqx
    import jax.numpy as jnp

    import flowjax.distributions as D

    if variant == "single":
        a, b = jnp.asarray(0.3), jnp.asarray(1.7)
        return {"Normal": lambda: D.Normal(a, b), "LogNormal": lambda: D.LogNormal(a, b), "Uniform": lambda: D.Uniform(a, a + b),
                "MultivariateNormal": lambda: D.MultivariateNormal(jnp.asarray([0.3, -1.0]), jnp.asarray([[2.0, 0.6], [0.6, 1.0]])),
                "Gumbel": lambda: D.Gumbel(a, b), "Cauchy": lambda: D.Cauchy(a, b), "StudentT": lambda: D.StudentT(jnp.asarray(3.0), a, b),
                "Laplace": lambda: D.Laplace(a, b), "Exponential": lambda: D.Exponential(b), "Logistic": lambda: D.Logistic(a, b)}[fam]()
    locs, scs = jnp.asarray([0.0, float(sep)]), jnp.asarray([1.0, 0.5])
    comp = {"Normal": lambda: eqx.filter_vmap(D.Normal)(locs, scs), "LogNormal": lambda: eqx.filter_vmap(D.LogNormal)(jnp.log1p(locs), scs),
            "Uniform": lambda: eqx.filter_vmap(D.Uniform)(locs, locs + 1 + scs), "Gumbel": lambda: eqx.filter_vmap(D.Gumbel)(locs, scs),
            "Cauchy": lambda: eqx.filter_vmap(D.Cauchy)(locs, scs), "StudentT": lambda: eqx.filter_vmap(D.StudentT)(jnp.asarray([3.0, 1.5]), locs, scs),
            "Laplace": lambda: eqx.filter_vmap(D.Laplace)(locs, scs), "Exponential": lambda: eqx.filter_vmap(D.Exponential)(jnp.asarray([1.0, 1.0 + sep])),
            "Logistic": lambda: eqx.filter_vmap(D.Logistic)(locs, scs)}[fam]()
    if variant == "mix-wide-weights":  # valid positive weights whose ratio overflows a softmax evaluated without the log-sum-exp shift
        big = 1e25 if jnp.zeros(()).dtype == jnp.float32 else 1e200
        return D.VmapMixture(comp, jnp.asarray([1.0 / big, big]))
    return D.VmapMixture(comp, jnp.asarray([1.0, 2.0]))


_FN = {}


def _fn():
    if _FN:
        return _FN["f"]
    import equinox as eqx
    import jax
    import jax.numpy as jnp

    from flowjax import wrappers

    @eqx.filter_jit
    def f(dist, X, c, with_grad):
        params, static = eqx.partition(dist, eqx.is_inexact_array, is_leaf=lambda l: isinstance(l, wrappers.NonTrainable))

        def lp(params, x):
            return eqx.combine(params, static).log_prob(x, c)

        def one(x):
            if not with_grad:
                return lp(params, x), jnp.zeros_like(x), jnp.zeros((), int), jnp.zeros((), int)
            v, (gp, gx) = jax.value_and_grad(lp, argnums=(0, 1))(params, x)
            leaves = jax.tree_util.tree_leaves(gp)
            bad = sum([jnp.sum(~jnp.isfinite(l)) for l in leaves]) if leaves else jnp.zeros((), int)
            first_bad = jnp.argmax(jnp.asarray([jnp.any(~jnp.isfinite(l)) for l in leaves])) if leaves else jnp.zeros((), int)
            return v, gx, bad, first_bad

        return jax.vmap(one)(X)

    _FN["f"] = f
    return f


def run_case(case):
    import equinox as eqx
    import jax
    import jax.numpy as jnp

    import flowjax.distributions as D
    from checks import c01
    from flowjax import wrappers
    from mc import battery as bt
    from mc import grammar as g

    dtype = bt.np_dtype()
    dt = "f64" if dtype == np.float64 else "f32"
    tier, seed = case["tier"], case["seed"]
    levels = [0, 1] if tier == "quick" else [0, 1, 2]
    extra_points = None
    if "family" in case:
        from mc.grammar import Info, _full
        from mc.params import perturb

        shp = (2,) if case["family"] == "MultivariateNormal" else ()
        ii = Info(shp, None, _full(shp, "R"), _full(shp, "R"), True, True, False, False)
        cls = f"family:{case['family']}|{case['variant']}|sep={case['sep']}"
        builder = lambda lvl: perturb(build_family(case["family"], case["variant"], case["sep"]), lvl, seed, scale=0.5)  # noqa: E731
        sp = float(case["sep"])
        pts = sorted(set(LADDER + [sp, sp - 1.0, sp + 0.5, sp + 1.5, sp + 2.0, 0.3, 2.0, 1.5]))
        extra_points = np.asarray(pts, dtype) if shp == () else np.stack([np.asarray(pts, dtype), np.roll(np.asarray(pts, dtype), 3)], axis=1)
    elif "factory" in case:
        ii = c01.factory_info(case["factory"], case["invert"], case["cond"])
        cls = f"factory:{case['factory']}|invert={int(case['invert'])}"
        builder = lambda lvl: c01.build_factory(case["factory"], case["invert"], case["cond"], seed, lvl)  # noqa: E731
    else:
        spec = case["spec"]
        ii = g.info(spec)
        cls = f"{case['base']}>{g._cls(spec)}" + (f"[{spec.get('interval')}]" if spec.get("k") == "RQS" else "")

        def builder_salt(lvl, sd):
            b = g.build(spec, sd, lvl, seed + 3 * sd)
            base = D.StandardNormal(ii.shape) if case["base"] == "normal" else D.StudentT(jnp.full(ii.shape, 3.0))
            return D.Transformed(base, b)

        def builder(lvl):
            b = g.build(spec, 0, lvl, seed)
            base = D.StandardNormal(ii.shape) if case["base"] == "normal" else D.StudentT(jnp.full(ii.shape, 3.0))
            return D.Transformed(base, b)

    f = _fn()
    viols, outcomes = [], {}
    transitions = nontrivial = 0
    digest = hashlib.sha1()
    sample = None
    seen = {}

    def add(tail, msg, detail):
        sig = f"C18|{cls}|{dt}|{tail}"
        seen[sig] = seen.get(sig, 0) + 1
        if seen[sig] <= 1:
            viols.append({"sig": sig, "msg": msg, "detail": detail})

    states = [(lv, 0) for lv in levels]
    if "factory" not in case and "family" not in case and case["base"] == "normal" and bt.np_dtype() == np.float64 and (
            case["spec"].get("k") == "RQS" or (case["spec"].get("k") == "Invert" and case["spec"]["c"].get("k") == "RQS")):
        # splines: the unselected branch of the interval test depends on the knot parameters, so several trained states (levels 0-3 x 3 parameter patterns) are tried
        states = [(lv, sd) for lv in (0, 1, 2, 3) for sd in range(3 if lv else 1)]
    if "spec" in case and case["spec"].get("k") == "MAF" and case["spec"].get("d") == 0 and case["spec"].get("dim") == 3 and case["spec"].get("tr", "affine") == "affine":
        # a linear conditioner in a fixed, seed-independent parameter state (the one of finding 8l): at |y| = 1e4 the transformer
        # parameters of the elements a sequential inverse has not reached yet are extreme, those at the inverse image are moderate
        states = states + [("finding-8l", 0)]
    for level, salt_ in states:
        try:
            if level == "finding-8l":
                d0 = builder(0)
                W_ = jnp.asarray([[0.0, 0, 0], [0, 0, 0], [-0.394, 0, 0], [-0.405, 0, 0], [0.537, -0.567, 0], [-0.107, 0.296, 0]], d0.bijection.masked_autoregressive_mlp.layers[0].bias.dtype)
                b_ = jnp.asarray([0.266, 0.369, -0.419, -0.08, 0.218, 0.186], W_.dtype)
                dist = eqx.tree_at(lambda m: (m.bijection.masked_autoregressive_mlp.layers[0].weight.if_true, m.bijection.masked_autoregressive_mlp.layers[0].bias), d0, (W_, b_))
                level = 0
            else:
                dist = builder(level) if salt_ == 0 else builder_salt(level, salt_)
        except Exception as e:
            add(f"construct|{type(e).__name__}", f"{case['id']} level {level}: {type(e).__name__}: {str(e)[:200]}", {})
            continue
        if tuple(dist.shape) != ii.shape:
            continue
        consts = bt.boundary_constants(dist)
        codes = np.full(ii.shape, "R")
        X = bt.input_batch(codes, consts, dtype)
        if extra_points is not None:
            X = np.concatenate([X, extra_points.reshape((-1, *ii.shape))], axis=0)
        params, _ = eqx.partition(dist, eqx.is_inexact_array, is_leaf=lambda l: isinstance(l, wrappers.NonTrainable))
        pnames = [jax.tree_util.keystr(p) for p, _ in jax.tree_util.tree_leaves_with_path(params)]
        for ci, c in enumerate(bt.conditions(ii.cond_shape, dtype, 2)):
            try:
                v, gx, nbad, first = bt.run_padded(lambda d, X, c: f(d, X, c, not ii.num_inv), dist, X, c)
            except Exception as e:
                add(f"raises|{type(e).__name__}", f"{cls} level {level}: log_prob/grad raised {type(e).__name__}: {str(e)[:300]}", {"level": level})
                continue
            N = X.shape[0]
            transitions += N
            v = np.asarray(v, float)
            gxf = np.isfinite(np.asarray(gx, float).reshape(N, -1)).all(1)
            digest.update(np.ascontiguousarray(np.nan_to_num(v)).tobytes())
            # overflow regime: |log_prob| so large that the true gradient is not representable in the dtype
            # (e.g. z = (x - loc) / scale with an underflowing scale): skipped and counted, not judged
            big = 1e30 if dtype == np.float64 else 1e8
            fin = np.isfinite(v) & (np.abs(v) <= big)
            outcomes["overflow-regime-skipped"] = outcomes.get("overflow-regime-skipped", 0) + int((np.isfinite(v) & ~fin).sum())
            kinds = [c01.classify_point(X[i], consts, dtype) for i in range(N)]
            nontrivial += sum(k != "generic" for k in kinds)
            o = f"finite={int(fin.sum())}/{N}"
            outcomes["finite-logprob"] = outcomes.get("finite-logprob", 0) + int(fin.sum())
            outcomes["-inf-logprob"] = outcomes.get("-inf-logprob", 0) + int((v == -np.inf).sum())
            for i in np.nonzero(np.isnan(v) | (v == np.inf))[0]:
                add(f"nan-logprob|{kinds[i]}", f"{cls} level {level} cond#{ci}: log_prob({X[i].tolist()}) = {v[i]}", {"level": level, "x": X[i].tolist()})
            for i in np.nonzero(fin & ~gxf)[0]:
                add(f"nan-grad-x|{kinds[i]}", f"{cls} level {level} cond#{ci}: log_prob({X[i].tolist()}) = {v[i]:.6g} is finite but d/dx = {np.asarray(gx)[i].tolist()}",
                    {"level": level, "x": X[i].tolist()})
            for i in np.nonzero(fin & (np.asarray(nbad) > 0))[0]:
                nm = pnames[int(first[i])] if pnames else "?"
                add(f"nan-grad-params|{kinds[i]}", f"{cls} level {level} cond#{ci}: log_prob({X[i].tolist()}) = {v[i]:.6g} is finite but {int(nbad[i])} parameter-gradient "
                                                  f"entries are non-finite (first in {nm})", {"level": level, "x": X[i].tolist(), "param": nm})
            if sample is None and fin.any():
                i = int(np.nonzero(fin)[0][-1])
                sample = {"dist": cls, "x": X[i].tolist(), "log_prob": float(v[i]), "grad_x": np.asarray(gx)[i].tolist(), "nonfinite_param_grads": int(nbad[i])}
    for vv in viols:
        if seen[vv["sig"]] > 1:
            vv["msg"] += f"  [{seen[vv['sig']]} points with this signature]"
    return {"transitions": transitions, "traces": transitions, "states": 1, "nontrivial": nontrivial, "violations": viols,
            "outcomes": outcomes, "digest": digest.hexdigest(), "sample": sample}
