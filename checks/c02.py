"""C02 - reported log-determinants equal the true log|det Jacobian|.

Oracle: slogdet of the autodiff Jacobian (float64) of the PLAIN transform / inverse - it shares nothing
with the hand-written log-det formulas. At non-differentiable points the admissible set is the one-sided
values at the two float neighbours."""
import hashlib

import numpy as np

PROPERTY = "C02"
HORIZON_S = {"quick": 900.0, "thorough": 2400.0}
K = 256.0
SMIN = 1e-5
RULE = (
    "state = canonical expression tree x dtype; transition = one comparison of a reported log-det (forward at x, or "
    "inverse at y) with slogdet(jacfwd(plain method)) at one (parameter level != init, condition, input); "
    "non-trivial = |log det| > 1e-3"
)
ASSUMPTIONS = [
    "tolerance K*eps*n*cond(J) + 1e-12*(1+|ld|), K=256; points with non-finite Jacobian or tolerance > 1e-2*(1+|ld|) are skipped and counted",
    "points whose Jacobian has a singular value < 1e-5 (saturated tails) are skipped: there the autodiff oracle is itself inaccurate",
    "the Jacobian oracle differentiates max/min at exact ties with weight 1 for the unclipped branch (one-sided value) instead of JAX's 0.5",
    "for a numerically computed direction (BNAF inverse) the reference is minus the slogdet of the closed-form direction at the returned point",
]


def bounds(tier):
    from mc import grammar as g

    _, desc = g.enumerate_exprs(tier)
    return {"grammar": desc, "levels": [1, 2] if tier == "quick" else [0, 1, 2, 3], "conditions": 2 if tier == "quick" else 3,
            "dtypes": ["float64", "float32 (leaves; thorough: + depth 1)"], "factories": "8 factory configs x invert x cond",
            "exhaustive_within_bounds": True}


def enumerate_cases(tier, seed):
    from checks import c01

    from mc import grammar as g

    cases = [c for c in c01.enumerate_cases(tier, seed) if not c.get("inverter") and not (c.get("spec") or {}).get("w0")]  # the configured-inverter leg is C01's own; w0 states are added below
    # planar layers whose weight vector is EXACTLY zero (a zero-initialised or pruned layer, a conditioner whose last layer is zero):
    # the map is a pure translation, log-det 0; identities such as w.u-hat = m(w.u) hold only for w != 0
    for s in ({"k": "Planar", "dim": 2, "cond": None, "slope": None, "w0": True}, {"k": "Planar", "dim": 2, "cond": None, "slope": 0.1, "w0": True},
              {"k": "Planar", "dim": 2, "cond": 2, "slope": 0.1, "w0": True}, {"k": "Planar", "dim": 3, "cond": 2, "slope": None, "w0": True},
              {"k": "Planar", "dim": 2, "cond": None, "slope": 3.0, "w0": True}):
        for x64 in (True, False):
            cases.append({"id": ("f64|" if x64 else "f32|") + g.canon(s), "spec": s, "x64": x64, "tier": tier, "seed": seed})
    return cases


def _judge(ld, J, n, eps):
    fin = np.isfinite(J).all(axis=(1, 2)) & np.isfinite(ld)
    ref = np.full(J.shape[0], np.nan)
    cond = np.full(J.shape[0], np.inf)
    for i in np.nonzero(fin)[0]:
        s, l = np.linalg.slogdet(J[i])
        if s != 0 and np.isfinite(l):
            ref[i] = l
            c = np.linalg.cond(J[i], np.inf) if n > 1 else 1.0
            cond[i] = c
    tol = K * eps * n * cond + 1e-12 * (1 + np.abs(ref))
    # saturation: where the smallest singular value is tiny (tanh / exp / softplus tails) autodiff itself computes
    # the slope by cancellation (1 - tanh^2), so the oracle is no longer accurate to K*eps*cond: skipped, counted
    smin = np.array([np.linalg.svd(J[i], compute_uv=False)[-1] if fin[i] else 0.0 for i in range(J.shape[0])])
    judged = fin & np.isfinite(ref) & (tol <= 1e-2 * (1 + np.abs(ref))) & (smin >= SMIN)
    err = np.abs(ld - ref)
    bad = judged & ~(err <= tol)
    return ref, tol, judged, bad, err


def run_case(case):
    from checks import c01
    from mc import battery as bt
    from mc import grammar as g

    dtype = bt.np_dtype()
    eps = float(np.finfo(dtype).eps)
    tier, seed = case["tier"], case["seed"]
    levels = [1, 2] if tier == "quick" else [0, 1, 2, 3]
    ncond = 2 if tier == "quick" else 3
    if "factory" in case:
        ii = c01.factory_info(case["factory"], case["invert"], case["cond"], dim=case.get("dim", 2))
        cls = f"factory:{case['factory']}"
        builder = lambda lvl: c01.build_factory(case["factory"], case["invert"], case["cond"], seed, lvl, dim=case.get("dim", 2)).bijection  # noqa: E731
    else:
        ii = g.info(case["spec"])
        cls = g._cls(case["spec"])
        builder = lambda lvl: g.build(case["spec"], 0, lvl, seed)  # noqa: E731
    n = max(1, int(np.prod(ii.shape)))
    dt = "f64" if dtype == np.float64 else "f32"
    viols, outcomes, skipped = [], {}, {}
    transitions = nontrivial = 0
    max_ratio = 0.0
    digest = hashlib.sha1()
    sample = None
    B_ = bt.bundles()

    def add(tail, msg, detail):
        viols.append({"sig": f"C02|{cls}|{dt}|{tail}", "msg": msg, "detail": detail})

    def side_ok(name, b, X, c, rows, ld):
        """Admissible one-sided values at a non-differentiable point: autodiff at the two float neighbours
        (strict tolerance) and at x -+ delta (delta = sqrt(eps)-scale, loose tolerance). The latter is needed
        because autodiff through a clip / min / max that is exactly tied returns HALF the one-sided slope."""
        okrows = np.zeros(len(rows), bool)
        delta = (1e-7 if dtype == np.float64 else 1e-3) * (1 + np.abs(X))
        _, _, _, J0 = bt.run_padded(B_[name + "_jac"], b, X, c)
        ref0, tol0, _, _, _ = _judge(ld, bt.mat(J0, ii.shape), n, eps)
        spreads = []
        for Xn, loose in ((np.nextafter(X, dtype(np.inf)), 0.0), (np.nextafter(X, dtype(-np.inf)), 0.0),
                          ((X + delta).astype(dtype), 1.0), ((X - delta).astype(dtype), 1.0)):
            _, _, _, Jn = bt.run_padded(B_[name + "_jac"], b, Xn, c)
            refn, toln, judn, _, _ = _judge(ld, bt.mat(Jn, ii.shape), n, eps)
            if not loose:
                spreads.append(np.where(np.isfinite(refn), np.abs(refn - ref0), np.inf))
            toln = toln + loose * (1e-4 if dtype == np.float64 else 2e-2) * (1 + np.abs(refn))
            okrows |= judn[rows] & (np.abs(ld[rows] - refn[rows]) <= toln[rows])
        # sensitivity of the log-det itself to a ONE-ulp change of the input (smooth side): where that already
        # exceeds the tolerance (very stiff splines near an interval end) agreement below 64x that resolution
        # is not meaningful - "rounding scaled by the map's conditioning"
        s1 = np.minimum(spreads[0], spreads[1])
        okrows |= np.isfinite(s1[rows]) & (np.abs(ld[rows] - ref0[rows]) <= tol0[rows] + 64 * s1[rows])
        # last resort floor (counted in outcomes): an intermediate value of a composition may sit on a stiff
        # spline's interval end without the outer input's neighbours moving it, so the sensitivity above reads 0
        floor = (2e-8 if dtype == np.float64 else 5e-3) * (1 + np.abs(ref0))
        fl = np.isfinite(ref0[rows]) & (np.abs(ld[rows] - ref0[rows]) <= tol0[rows] + floor[rows]) & ~okrows
        outcomes["accepted-by-floor(2e-8 rel)"] = outcomes.get("accepted-by-floor(2e-8 rel)", 0) + int(fl.sum())
        okrows |= fl
        return okrows

    def check_direct(name, b, X, c, level, ci):
        nonlocal transitions, nontrivial, max_ratio, sample
        y, y2, ld, J = bt.run_padded(B_[name + "_jac"], b, X, c)
        transitions += X.shape[0]
        if np.asarray(ld).shape != (X.shape[0],):
            add(f"{name}|logdet-not-scalar", f"{cls}: log-det has shape {np.asarray(ld).shape[1:]} per input", {"level": level})
            return y
        ref, tol, judged, bad, err = _judge(np.asarray(ld, float), bt.mat(J, ii.shape), n, eps)
        rows = np.nonzero(bad)[0]
        strict_good = judged & ~bad
        if len(rows):
            ok1 = side_ok(name, b, X, c, rows, np.asarray(ld, float))
            bad[rows[ok1]] = False
            outcomes["kink-one-sided-accepted"] = outcomes.get("kink-one-sided-accepted", 0) + int(ok1.sum())
        nontrivial += int((judged & (np.abs(ref) > 1e-3)).sum())
        skipped["ill-conditioned-or-nonfinite"] = skipped.get("ill-conditioned-or-nonfinite", 0) + int((~judged).sum())
        good = judged & ~bad
        if strict_good.any():
            max_ratio = max(max_ratio, float(np.max(err[strict_good] / tol[strict_good])))
        digest.update(np.ascontiguousarray(np.nan_to_num(np.asarray(ld, float))).tobytes())
        o = f"{name}:{'ok' if not bad.any() else 'BAD'}"
        outcomes[o] = outcomes.get(o, 0) + 1
        if sample is None and good.any():
            i = int(np.argmax(np.where(good, np.abs(ref), -1)))
            sample = {"method": name, "level": level, "x": X[i].tolist(), "reported": float(ld[i]), "slogdet_autodiff": float(ref[i])}
        consts = bt.boundary_constants(b)
        seen = set()
        for i in np.nonzero(bad)[0]:
            kind = c01.classify_point(X[i], consts, dtype)
            if kind in seen:
                continue
            seen.add(kind)
            add(f"{name}|{kind}", f"{cls} level {level} cond#{ci}: {name} log-det at {X[i].tolist()} reported {float(ld[i])!r}, "
                                  f"autodiff {float(ref[i])!r} (|diff| {err[i]:.3g} > tol {tol[i]:.3g}; {int(bad.sum())} such points)",
                {"level": level, "cond": ci, "x": X[i].tolist(), "method": name})
        return y

    def check_numeric(name, other, b, X, c, level, ci):
        """name is numerical: ld_name(x) must equal -slogdet(J_other(name(x)))."""
        nonlocal transitions, nontrivial
        y, _, ld, _ = bt.run_padded(B_[name], b, X, c)
        fin = np.isfinite(y.reshape(y.shape[0], -1)).all(axis=1)
        ys = np.where(fin.reshape((-1,) + (1,) * (y.ndim - 1)), y, y[np.argmax(fin)] if fin.any() else 0 * y)
        _, _, _, Jo = bt.run_padded(B_[other + "_jac"], b, ys, c)
        transitions += X.shape[0]
        ref, tol, judged, bad, err = _judge(-np.asarray(ld, float), bt.mat(Jo, ii.shape), n, eps)
        tol = tol + 1e-5 * (1 + np.abs(ref))
        bad = judged & fin & ~(err <= tol)
        rows = np.nonzero(bad)[0]
        if len(rows):
            # the numerically found point carries an error of ~1e-7 x propagation; where the log-det itself changes
            # quickly (stiff spline next to an interval end) that moves it visibly: allow 64x its measured change
            # over a displacement of 1e-6
            d6 = 1e-6 * (1 + np.abs(ys))
            spread = np.zeros(len(ys))
            for Yn in ((ys + d6).astype(dtype), (ys - d6).astype(dtype)):
                _, _, _, Jn = bt.run_padded(B_[other + "_jac"], b, Yn, c)
                refn, _, _, _, _ = _judge(-np.asarray(ld, float), bt.mat(Jn, ii.shape), n, eps)
                spread = np.maximum(spread, np.where(np.isfinite(refn), np.abs(refn - ref), 0.0))
            bad &= ~(err <= tol + 64 * spread)
            rows = np.nonzero(bad)[0]
        if len(rows):  # same one-sided admissible set, taken on the closed-form side
            okr = side_ok(other, b, ys, c, rows, -np.asarray(ld, float))
            bad[rows[okr]] = False
            outcomes["kink-one-sided-accepted"] = outcomes.get("kink-one-sided-accepted", 0) + int(okr.sum())
        nontrivial += int((judged & (np.abs(ref) > 1e-3)).sum())
        for i in np.nonzero(bad)[0][:1]:
            add(f"{name}|numeric", f"{cls} level {level}: {name} log-det at {X[i].tolist()} is {float(ld[i])!r}, expected {-float(ref[i])!r}",
                {"level": level, "cond": ci, "x": X[i].tolist()})

    for level in levels:
        try:
            b = builder(level)
        except Exception as e:
            add("construct", f"constructing {case['id']} level {level} raised {type(e).__name__}: {e}", {"level": level})
            continue
        if b.shape != ii.shape or b.cond_shape != ii.cond_shape:
            skipped["declared-shape-mismatch(C08)"] = skipped.get("declared-shape-mismatch(C08)", 0) + 1
            continue
        consts = bt.boundary_constants(b)
        dom_known, cod_known = not np.any(ii.dom == "X"), not np.any(ii.cod == "X")
        for ci, c in enumerate(bt.conditions(ii.cond_shape, dtype, ncond)):
            try:
                Y = None
                if ii.fwd and dom_known:
                    X = bt.input_batch(ii.dom, consts, dtype)
                    if not ii.num_fwd:
                        y = check_direct("fwd", b, X, c, level, ci)
                        fin = np.isfinite(y.reshape(y.shape[0], -1)).all(axis=1)
                        if fin.any():
                            Y = np.where(fin.reshape((-1,) + (1,) * (y.ndim - 1)), y, y[np.argmax(fin)])
                    elif ii.inv and not ii.num_inv:
                        check_numeric("fwd", "inv", b, X, c, level, ci)
                if ii.inv:
                    if cod_known:
                        Yc = bt.input_batch(ii.cod, consts, dtype)
                        Y = Yc if Y is None else np.concatenate([Y, Yc])
                    if Y is not None:
                        if not ii.num_inv:
                            check_direct("inv", b, Y, c, level, ci)
                        elif ii.fwd and not ii.num_fwd:
                            check_numeric("inv", "fwd", b, Y, c, level, ci)
                if Y is None and not (ii.fwd and dom_known):
                    skipped["domain-unknown"] = skipped.get("domain-unknown", 0) + 1
            except NotImplementedError:
                add("raises|NotImplementedError", f"{cls}: a direction the type system says exists raised NotImplementedError", {})
            except Exception as e:
                add(f"raises|{type(e).__name__}", f"{cls} level {level} cond {ci}: {type(e).__name__}: {str(e)[:300]}", {"level": level})
    return {"transitions": transitions, "traces": transitions, "states": 1, "nontrivial": nontrivial, "violations": viols,
            "outcomes": outcomes, "skipped": skipped, "max_ratio": max_ratio, "digest": digest.hexdigest(), "sample": sample}
