"""C17 - loss functions compute their defining estimators.

 * MaximumLikelihoodLoss = -mean(unwrap(dist).log_prob(x, c))            (NumPy reference on public log_prob)
 * ElboLoss = mean(log q(s) - target(s)), (s, log q) from sample_and_log_prob with the given key; same value
   with and without stick-the-landing; the STL gradient is the path derivative only (reference computed with
   two distinct model objects, no stop_gradient) and differs from the total gradient.
 * ContrastiveLoss: a LOOK-UP TABLE distribution log q(x_j | c_i) = Theta[i, j] (rows carry their index) turns
   the gradient at Theta = 0 into an exact read-out of which rows were used: for every row exactly n_contrastive
   distinct other rows, each once; with a non-trivial Theta and prior the value is the defining softmax
   cross-entropy, which is >= 0."""
import hashlib

import numpy as np

PROPERTY = "C17"
HORIZON_S = {"quick": 900.0, "thorough": 1800.0}
RULE = (
    "state = (loss, distribution, batch size, num_samples | n_contrastive); transition = one loss evaluation (and "
    "gradient) for one key compared with the defining formula; non-trivial = n_contrastive < batch-1 (the draw has "
    "freedom) / num_samples > 1 / a model containing wrappers"
)
ASSUMPTIONS = ["value agreement 1e-9 relative (float64); gradient agreement 1e-7 relative"]


def bounds(tier):
    return {"batch_sizes": "2..7; likelihood loss also 255,256,257,1023,1024,1025,2500,4097", "n_contrastive": "1..batch-1 (all)", "keys": 3, "num_samples": [1, 3, 16],
            "distributions": ["Normal", "coupling flow", "conditional coupling flow", "model with NonTrainable + reparam wrappers"],
            "exhaustive_within_bounds": True}


def enumerate_cases(tier, seed):
    cases = []
    for b in range(2, 8):
        cases.append({"id": f"contrastive|B={b}", "leg": "contrastive", "B": b, "x64": True, "seed": seed})
    for m in ("Normal", "coupling", "cond_coupling", "wrapped"):
        cases.append({"id": f"ml|{m}", "leg": "ml", "model": m, "x64": True, "seed": seed})
        if m != "cond_coupling":
            cases.append({"id": f"elbo|{m}", "leg": "elbo", "model": m, "x64": True, "seed": seed})
    return cases


def build(model, seed, level=1):
    import equinox as eqx
    import jax.numpy as jnp
    import jax.random as jr

    import flowjax.bijections as B
    import flowjax.distributions as D
    from flowjax import flows
    from flowjax.wrappers import NonTrainable, non_trainable
    from mc.params import perturb

    k = jr.PRNGKey(seed + 21)
    base = D.StandardNormal((2,))
    if model == "Normal":
        d = D.Normal(jnp.asarray([0.4, -0.3]), jnp.asarray([0.8, 1.6]))
    elif model == "coupling":
        d = flows.coupling_flow(k, base_dist=base, flow_layers=2, nn_width=3, invert=False)
    elif model == "cond_coupling":
        d = flows.coupling_flow(k, base_dist=base, cond_dim=2, flow_layers=2, nn_width=3)
    else:
        aff = B.Affine(jnp.asarray([0.2, 0.5]), jnp.asarray([1.5, 0.6]))
        aff = eqx.tree_at(lambda a: a.loc, aff, replace_fn=NonTrainable)
        d = D.Transformed(D.Normal(jnp.zeros(2), jnp.asarray([1.0, 2.0])), B.Chain([aff, non_trainable(B.Loc(jnp.asarray([0.1, -0.1]))), B.Tanh((2,))]))
    return perturb(d, level, seed, scale=0.4)


def part(d):
    import equinox as eqx

    from flowjax import wrappers as W

    return eqx.partition(d, eqx.is_inexact_array, is_leaf=lambda l: isinstance(l, W.NonTrainable))


def run_case(case):
    import equinox as eqx
    import jax
    import jax.numpy as jnp
    import jax.random as jr

    import flowjax.distributions as D
    from flowjax.train.losses import ContrastiveLoss, ElboLoss, MaximumLikelihoodLoss
    from flowjax.wrappers import unwrap

    seed = case["seed"]
    viols, seen = [], {}
    tr = nt = 0
    sample = None
    digest = hashlib.sha1()

    def add(tail, msg):
        sig = f"C17|{case['leg']}|{tail}"
        seen[sig] = seen.get(sig, 0) + 1
        if seen[sig] <= 1:
            viols.append({"sig": sig, "msg": msg, "detail": {k: v for k, v in case.items() if k != "id"}})

    def close(a, b, rt=1e-9):
        if not np.isfinite(float(b)):
            return float(a) == float(b)
        return abs(float(a) - float(b)) <= rt * (1 + abs(float(b)))

    keys = [jr.PRNGKey(100 * seed + i) for i in (1, 2, 3)]
    if case["leg"] == "ml":
        d = build(case["model"], seed)
        cond = d.cond_shape is not None
        for B_ in range(2, 8):
            for ki, key in enumerate(keys):
                x = jr.normal(key, (B_, 2)) * (0.5 if case["model"] == "wrapped" else 1.0)
                if case["model"] == "wrapped":
                    x = jnp.tanh(x)  # inside the support of the tanh-transformed model
                c = jr.normal(jr.fold_in(key, 7), (B_, 2)) if cond else None
                p, s = part(d)
                got = MaximumLikelihoodLoss()(p, s, x, c) if cond else MaximumLikelihoodLoss()(p, s, x)
                ud = unwrap(d)
                want = -np.mean([float(ud.log_prob(x[i], None if c is None else c[i])) for i in range(B_)])
                tr += 1
                nt += int(case["model"] != "Normal")
                digest.update(np.asarray(got).tobytes())
                if np.shape(got) != () or not close(got, want):
                    add("value", f"MaximumLikelihoodLoss on {case['model']} (batch {B_}) = {float(got)!r}, -mean(log_prob) = {want!r}")
                if sample is None:
                    sample = {"loss": "ML", "model": case["model"], "batch": B_, "value": float(got), "reference": float(want)}
        # other valid batch layouts: two leading batch axes, and a condition batch broadcasting against a single x
        key = keys[0]
        layouts = [((4, 3, 2), (4, 3, 2) if cond else None)] + ([((2,), (5, 2)), ((6, 2), (3, 1, 2))] if cond else [])
        # large batches around powers of two (an implementation that evaluates in chunks must not drop or repeat rows): the last
        # row is far from the rest, so leaving it out (or counting it twice) moves the mean visibly
        layouts += [((n_, 2), (n_, 2) if cond else None) for n_ in (255, 256, 257, 1023, 1024, 1025, 2500, 4097)]
        for xs_, cs_ in layouts:
            x = jr.normal(key, xs_) * (0.5 if case["model"] == "wrapped" else 1.0)
            if case["model"] == "wrapped":
                x = jnp.tanh(x)
            c = jr.normal(jr.fold_in(key, 9), cs_) if cs_ is not None else None
            if len(xs_) == 2 and xs_[0] > 100 and case["model"] != "wrapped":
                x = x.at[-1].set(3.5)
            p, s = part(d)
            got = MaximumLikelihoodLoss()(p, s, x, c) if cond else MaximumLikelihoodLoss()(p, s, x)
            lp = unwrap(d).log_prob(x, c)
            want = -float(np.mean(np.asarray(lp)))
            tr += 1
            nt += 1
            if not close(got, want):
                add("value-batch-layout", f"MaximumLikelihoodLoss on {case['model']} with x{xs_} condition{cs_}: {float(got)!r}, minus the mean of the {np.asarray(lp).size} log-probabilities = {want!r}")
        # a batch containing a row outside the support: minus the mean log-probability is +inf, not a mean over the rest
        if case["model"] in ("Normal", "wrapped"):
            import flowjax.distributions as D_

            dd = D_.Uniform(jnp.asarray([0.0, -1.0]), jnp.asarray([1.0, 2.0])) if case["model"] == "Normal" else d
            for B_ in (2, 5):
                x = jnp.full((B_, 2), 0.4).at[B_ // 2, 0].set(7.0)
                p, s = part(dd)
                got = MaximumLikelihoodLoss()(p, s, x)
                tr += 1
                nt += 1
                if not (np.isinf(float(got)) and float(got) > 0):
                    add("value-out-of-support", f"MaximumLikelihoodLoss with one out-of-support row (batch {B_}) = {float(got)!r}; minus the mean log-probability of that batch is +inf")
    elif case["leg"] == "elbo":
        d = build(case["model"], seed)
        target_d = D.Normal(jnp.asarray([0.5, -0.2]), jnp.asarray([1.3, 0.9]))
        target = lambda x: target_d.log_prob(x) + 0.3 * jnp.sin(x).sum()  # noqa: E731
        p, s = part(d)
        for n in (1, 3, 16):
            for key in keys:
                v0 = ElboLoss(target, n)(p, s, key)
                v1 = ElboLoss(target, n, stick_the_landing=True)(p, s, key)
                smp, lq = d.sample_and_log_prob(key, (n,))
                want = float(np.mean(np.asarray(lq) - np.asarray(jax.vmap(target)(smp))))
                tr += 2
                nt += int(n > 1)
                digest.update(np.asarray(v0).tobytes())
                if np.shape(v0) != () or not close(v0, want):
                    add("value", f"ElboLoss({case['model']}, n={n}) = {float(v0)!r}, mean(log q - target) over sample_and_log_prob(key,(n,)) = {want!r}")
                if not close(v1, want, 1e-8):
                    add("stl-value", f"ElboLoss stick_the_landing value {float(v1)!r} differs from the plain value {want!r} ({case['model']}, n={n})")
                # gradients: total vs path-only
                g_plain = eqx.filter_grad(lambda pp: ElboLoss(target, n)(pp, s, key))(p)
                g_stl = eqx.filter_grad(lambda pp: ElboLoss(target, n, stick_the_landing=True)(pp, s, key))(p)

                def f(pa, pb):
                    xs = eqx.combine(pa, s).sample(key, (n,))
                    return (eqx.combine(pb, s).log_prob(xs) - jax.vmap(target)(xs)).mean()

                g_path = eqx.filter_grad(lambda pa: f(pa, p))(p)
                g_total = eqx.filter_grad(lambda pa: f(pa, pa))(p)
                fl = lambda t: np.concatenate([np.asarray(l, float).ravel() for l in jax.tree_util.tree_leaves(t)])  # noqa: E731
                a, b_, c_, t_ = fl(g_stl), fl(g_path), fl(g_plain), fl(g_total)
                tr += 2
                sc = 1 + np.abs(b_).max()
                if not np.all(np.abs(a - b_) <= 1e-7 * sc):
                    add("stl-gradient", f"stick-the-landing gradient is not the path derivative ({case['model']}, n={n}): max diff {np.abs(a - b_).max():.3g}")
                if not np.all(np.abs(c_ - t_) <= 1e-7 * (1 + np.abs(t_).max())):
                    add("plain-gradient", f"plain ELBO gradient is not the total derivative ({case['model']}, n={n}): max diff {np.abs(c_ - t_).max():.3g}")
                if n > 1 and case["model"] != "x" and np.abs(t_ - b_).max() <= 1e-9:
                    add("vacuous", f"score term vanished ({case['model']}, n={n}): path and total gradients coincide, the STL comparison is vacuous")
                if sample is None:
                    sample = {"loss": "ELBO", "model": case["model"], "n": n, "value": float(v0), "reference": want}
    else:
        Bsz = case["B"]

        class Table(D.AbstractDistribution):
            theta: jax.Array
            shape: tuple = ()
            cond_shape: tuple = ()

            def _log_prob(self, x, condition=None):
                i = jnp.round(condition).astype(int)
                j = jnp.round(x).astype(int)
                return self.theta[i, j]

            def _sample(self, key, condition=None):
                return jnp.zeros(())

        class Prior(D.AbstractDistribution):
            w: jax.Array
            shape: tuple = ()
            cond_shape = None

            def _log_prob(self, x, condition=None):
                return self.w[jnp.round(x).astype(int)]

            def _sample(self, key, condition=None):
                return jnp.zeros(())

        x = jnp.arange(float(Bsz))
        c = jnp.arange(float(Bsz))

        def readout(loss_obj, B_, n_, key_):
            """rows used per row, read from d loss / d theta at theta = 0 (flat prior); returns (used, ok)."""
            xb, cb = jnp.arange(float(B_)), jnp.arange(float(B_))
            p_, s_ = part(Table(jnp.zeros((B_, B_))))
            g_ = np.asarray(eqx.filter_grad(lambda pp: loss_obj(pp, s_, xb, cb, key_))(p_).theta, float) * B_ * (n_ + 1)
            used_, ok_ = [], True
            for i_ in range(B_):
                row_ = g_[i_].copy()
                diag_ = row_[i_]
                row_[i_] = 0
                mult_ = np.round(row_, 6)
                used_.append([int(j_) for j_ in np.nonzero(mult_)[0] for _ in range(int(round(abs(mult_[j_]))))])
                if not (abs(diag_ + n_) < 1e-6 and np.all(np.abs(mult_ - np.round(mult_)) < 1e-6) and set(np.unique(mult_)) <= {0.0, 1.0} and mult_.sum() == n_):
                    ok_ = False
            return used_, ok_

        # ONE loss object used on batches of different sizes, larger first (a last, smaller batch of an epoch; a validation set
        # smaller than the batch size): nothing cached from an earlier call may leak into a later one
        if Bsz >= 3:
            n_sh = min(2, Bsz - 1)
            shared = ContrastiveLoss(Prior(jnp.zeros(Bsz + 3)), n_sh)
            for B_seq in ((Bsz + 3, Bsz), (Bsz, Bsz + 2, Bsz - 1 if Bsz - 1 > n_sh else Bsz)):
                for B_ in B_seq:
                    used_, ok_ = readout(shared, B_, n_sh, keys[0])
                    tr += 1
                    nt += 1
                    if not ok_:
                        add("contrastive-rows-reused-object", f"one ContrastiveLoss(n_contrastive={n_sh}) object called on batches {B_seq}: for the batch of {B_} the rows used per row are {used_}; expected {n_sh} distinct OTHER rows each exactly once")
        for n in range(1, Bsz):
            for key in keys:
                flat_prior = Prior(jnp.zeros(Bsz))
                loss = ContrastiveLoss(flat_prior, n)
                d0 = Table(jnp.zeros((Bsz, Bsz)))
                p, s = part(d0)
                g = np.asarray(eqx.filter_grad(lambda pp: loss(pp, s, x, c, key))(p).theta, float) * Bsz * (n + 1)
                tr += 1
                nt += int(n < Bsz - 1)
                digest.update(np.ascontiguousarray(np.round(g, 9)).tobytes())
                used = []
                okrow = True
                for i in range(Bsz):
                    row = g[i].copy()
                    diag = row[i]
                    row[i] = 0
                    mult = np.round(row, 6)
                    used.append([int(j) for j in np.nonzero(mult)[0] for _ in range(int(round(mult[j])))])
                    if not (abs(diag + n) < 1e-6 and np.all(np.abs(mult - np.round(mult)) < 1e-6) and set(np.unique(mult)) <= {0.0, 1.0} and mult.sum() == n):
                        okrow = False
                if not okrow:
                    add("contrastive-rows", f"ContrastiveLoss(batch {Bsz}, n_contrastive {n}): rows used per row (from the gradient read-out) {used}; expected {n} distinct OTHER rows each exactly once")
                    continue
                # value with non-trivial theta and prior over exactly those index sets
                theta = jnp.asarray(np.sin(1.3 * np.arange(Bsz * Bsz)).reshape(Bsz, Bsz) * 2.0)
                pw = jnp.asarray(0.7 * np.cos(0.9 * np.arange(Bsz)))
                loss2 = ContrastiveLoss(Prior(pw), n)
                p2, s2 = part(Table(theta))
                val = float(loss2(p2, s2, x, c, key))
                L = np.asarray(theta) - np.asarray(pw)[None, :]
                want = 0.0
                for i in range(Bsz):
                    logits = np.asarray([L[i, j] for j in used[i]] + [L[i, i]])
                    want += -(L[i, i] - (np.log(np.exp(logits - logits.max()).sum()) + logits.max()))
                want /= Bsz
                tr += 1
                if not close(val, want) or val < -1e-12:
                    add("contrastive-value", f"ContrastiveLoss(batch {Bsz}, n {n}) = {val!r}, softmax cross-entropy over the rows it used = {want!r}")
                # sharp, mis-located conditional density: logit gaps of hundreds of nats (the defining cross-entropy is finite)
                theta_big = theta * 450.0
                p3, s3 = part(Table(theta_big))
                val3 = float(ContrastiveLoss(Prior(pw), n)(p3, s3, x, c, key))
                L3 = np.asarray(theta_big) - np.asarray(pw)[None, :]
                want3 = 0.0
                for i in range(Bsz):
                    logits = np.asarray([L3[i, j] for j in used[i]] + [L3[i, i]])
                    want3 += -(L3[i, i] - (np.log(np.exp(logits - logits.max()).sum()) + logits.max()))
                want3 /= Bsz
                tr += 1
                if not (np.isfinite(val3) and close(val3, want3)):
                    add("contrastive-value-large-logits", f"ContrastiveLoss(batch {Bsz}, n {n}) with logits of magnitude ~900 = {val3!r}, defining cross-entropy = {want3!r}")
                if sample is None:
                    sample = {"loss": "Contrastive", "batch": Bsz, "n_contrastive": n, "rows_used": used, "value": val}
    return {"transitions": tr, "traces": tr, "states": tr, "nontrivial": nt, "violations": viols,
            "outcomes": {f"{case['leg']}:{'ok' if not viols else 'BAD'}": 1}, "digest": digest.hexdigest(), "sample": sample}
