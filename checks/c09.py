"""C09 - autoregressive, coupling and block structure holds for all weights.

The architecture grid (dim, cond_dim, width, depth, parameters per dimension, block size) is enumerated
completely. For each architecture several weight assignments are written into the RAW trainable arrays
(the state any optimiser update produces): all-positive (every permitted path has a strictly positive
derivative, so a missing permitted dependency is visible), mixed-sign at magnitudes 1 and 50, and dense
arrays behind the masks. The Jacobian of the public transform w.r.t. x and the condition is then inspected
for exact zeros / strict signs; the mask helpers are compared with patterns written from their docstrings."""
import hashlib
import itertools

import numpy as np

PROPERTY = "C09"
HORIZON_S = {"quick": 600.0, "thorough": 1800.0}
RULE = (
    "state = architecture (kind, dim, cond_dim, width, depth, transformer size / block size); transition = one Jacobian "
    "inspection for one weight assignment at one input, or one mask-helper comparison; non-trivial = dim >= 2"
)
ASSUMPTIONS = [
    "masked weights are exact zeros, so forbidden dependencies are tested with == 0 (no tolerance)",
    "permitted dependencies are required to be non-zero only for the all-positive assignment with positive inputs, ReLU and width >= dim",
]


def bounds(tier):
    q = tier == "quick"
    return {"maf": f"dim 1..{3 if q else 4} x cond {{None,1,2}} x width {{1,2,3,5}} x depth {{0,1,2}} x transformer params/dim {{1,2,8}}",
            "maf_sizes": "dim 2..6 x every width dim..2dim+1 x cond {None,2} x depth {1,2}; dim 7..20 x width {dim, dim+1, 50} x cond {None,2} (all-positive and mixed weights)",
            "coupling": f"dim 2..{3 if q else 4} x untransformed 1..dim-1 x cond {{None,2}} x width {{2,4}} x depth {{0,1}} x transformer {{1,2}} params",
            "bnaf": f"dim 1..{3 if q else 4} x block_dim 1..3 x depth 0..2 x cond {{None,2}}",
            "weight_assignments": ["all-positive", "mixed +-1", "mixed +-50", "dense (mask-free) raw arrays"],
            "masks": "rank_based_mask for all rank vectors of length <=3 over {-1,0,1,2} (both eq); block masks for block shapes <=3x3, n_blocks <=4 (size<=6 rule: rows, cols <= 12), k in {-1,0,1}",
            "exhaustive_within_bounds": True}


def enumerate_cases(tier, seed):
    q = tier == "quick"
    cases = []
    for dim in range(1, (3 if q else 4) + 1):
        for cond in (None, 1, 2):
            for width in (1, 2, 3, 5):
                for depth in (0, 1, 2):
                    for tp in (1, 2, 8):
                        cases.append({"id": f"maf|dim={dim}|cond={cond}|w={width}|d={depth}|tp={tp}", "kind": "maf", "dim": dim, "cond": cond,
                                      "w": width, "d": depth, "tp": tp, "x64": True, "seed": seed})
    # hidden ranks are a function of (dim, cond_dim, width): "no permitted dependency is missing when width >= dim" is checked for
    # EVERY width dim..2*dim+1 up to dim 6 and for widths {dim, dim+1, 50 (the flows' default)} up to dim 20
    have = {c["id"] for c in cases}
    for dim in range(2, 7):
        for width in range(dim, 2 * dim + 2):
            for cond in (None, 2):
                for depth in (1, 2):
                    cid = f"maf|dim={dim}|cond={cond}|w={width}|d={depth}|tp=1"
                    if cid not in have:
                        cases.append({"id": cid, "kind": "maf", "dim": dim, "cond": cond, "w": width, "d": depth, "tp": 1, "x64": True, "seed": seed, "lite": True})
    for dim in range(7, 21):
        for width in (dim, dim + 1, 50):
            for cond in (None, 2):
                cases.append({"id": f"maf|dim={dim}|cond={cond}|w={width}|d=1|tp=1", "kind": "maf", "dim": dim, "cond": cond, "w": width, "d": 1, "tp": 1,
                              "x64": True, "seed": seed, "lite": True})
    for dim in range(2, (3 if q else 4) + 1):
        for u in range(1, dim):
            for cond in (None, 2):
                for width in (2, 4):
                    for depth in (0, 1):
                        for tp in (1, 2):
                            cases.append({"id": f"coupling|dim={dim}|u={u}|cond={cond}|w={width}|d={depth}|tp={tp}", "kind": "coupling", "dim": dim,
                                          "u": u, "cond": cond, "w": width, "d": depth, "tp": tp, "x64": True, "seed": seed})
    for dim in range(1, (3 if q else 4) + 1):
        for bd in (1, 2, 3):
            for depth in (0, 1, 2):
                for cond in (None, 2):
                    cases.append({"id": f"bnaf|dim={dim}|bd={bd}|d={depth}|cond={cond}", "kind": "bnaf", "dim": dim, "bd": bd, "d": depth,
                                  "cond": cond, "x64": True, "seed": seed})
    # float32 (the library's default dtype) with large positive raw weights: the positivity constraint of the diagonal
    # blocks must not overflow inside the weight normalisation
    for dim in (1, 2, 3):
        for bd in (1, 2):
            for depth in (0, 1, 2):
                cases.append({"id": f"bnaf|f32|dim={dim}|bd={bd}|d={depth}|cond=None", "kind": "bnaf", "dim": dim, "bd": bd, "d": depth,
                              "cond": None, "x64": False, "seed": seed})
    for i in range(4):
        cases.append({"id": f"masks|{i}", "kind": "masks", "part": i, "x64": True, "seed": seed})
    return cases


def _transformer(tp):
    import jax.numpy as jnp

    import flowjax.bijections as B

    if tp == 1:
        return B.Loc(jnp.zeros(()))
    if tp == 2:
        return B.Affine()
    return B.RationalQuadraticSpline(knots=2, interval=4)  # 2 + 2 + 4 = 8 parameters


def _assign(model, mode, seed):
    """Write a weight assignment into every RAW trainable array (incl. the arrays behind Where masks)."""
    import equinox as eqx
    import jax
    import jax.numpy as jnp

    from flowjax import wrappers

    params, static = eqx.partition(model, eqx.is_inexact_array, is_leaf=lambda l: isinstance(l, wrappers.NonTrainable))
    leaves, treedef = jax.tree_util.tree_flatten(params)
    out = []
    for li, leaf in enumerate(leaves):
        n = leaf.size
        i = jnp.arange(n)
        if mode == "positive":
            v = 0.3 + 0.05 * ((i * 7 + li) % 5)
        elif mode == "dense":
            v = 1.0 + 0.1 * ((i + li) % 3)
        elif mode in ("pos30", "pos60"):
            v = float(mode[3:]) + 0.5 * ((i + li) % 3)
        else:
            mag = 1.0 if mode == "mixed1" else 50.0
            v = mag * jnp.sin(1.3 * i + 0.7 * li + seed + 0.4)
        out.append(jnp.asarray(v, leaf.dtype).reshape(leaf.shape))
    return eqx.combine(jax.tree_util.tree_unflatten(treedef, out), static)


def run_case(case):
    import jax
    import jax.numpy as jnp
    import jax.random as jr

    import flowjax.bijections as B
    from flowjax import masks

    kind, seed = case["kind"], case["seed"]
    viols, seen = [], {}
    tr = nt = 0
    digest = hashlib.sha1()
    sample = None

    def add(tail, msg):
        sig = f"C09|{kind}|{tail}"
        seen[sig] = seen.get(sig, 0) + 1
        if seen[sig] <= 1:
            viols.append({"sig": sig, "msg": msg, "detail": {k: v for k, v in case.items() if k != "id"}})

    key = jr.PRNGKey(seed + 1)
    if kind == "masks":
        part = case["part"]
        idx = 0
        vals = (-1, 0, 1, 2)
        for la in range(1, 4):
            for lb in range(1, 4):
                for a in itertools.product(vals, repeat=la):
                    for b in itertools.product(vals, repeat=lb):
                        idx += 1
                        if idx % 4 != part:
                            continue
                        for eq in (False, True):
                            got = np.asarray(masks.rank_based_mask(jnp.asarray(a), jnp.asarray(b), eq=eq))
                            want = np.asarray([[(ob >= ia) if eq else (ob > ia) for ia in a] for ob in b])
                            tr += 1
                            if got.shape != want.shape or not np.array_equal(got, want):
                                add("rank_based_mask", f"rank_based_mask(in={a}, out={b}, eq={eq}) = {got.astype(int).tolist()}, documented pattern {want.astype(int).tolist()}")
        for bs in itertools.product((1, 2, 3), repeat=2):
            for nb in (1, 2, 3, 4):
                idx += 1
                if idx % 4 != part:
                    continue
                got = np.asarray(masks.block_diag_mask(bs, nb))
                want = np.kron(np.eye(nb, dtype=bool), np.ones(bs, dtype=bool))
                tr += 1
                nt += 1
                if got.shape != want.shape or not np.array_equal(got, want):
                    add("block_diag_mask", f"block_diag_mask({bs}, {nb}) = {got.astype(int).tolist()}")
                for k in (-1, 0, 1):
                    got = np.asarray(masks.block_tril_mask(bs, nb, k))
                    want = np.kron(np.tril(np.ones((nb, nb), dtype=bool), k), np.ones(bs, dtype=bool))
                    tr += 1
                    if got.shape != want.shape or not np.array_equal(got, want):
                        add("block_tril_mask", f"block_tril_mask({bs}, {nb}, k={k}) = {got.astype(int).tolist()}, block-level np.tril(k) gives {want.astype(int).tolist()}")
        sample = {"masks_compared": tr}
    else:
        dim, cond = case["dim"], case["cond"]
        if kind == "maf":
            model = B.MaskedAutoregressive(key, transformer=_transformer(case["tp"]), dim=dim, cond_dim=cond, nn_width=case["w"], nn_depth=case["d"])
        elif kind == "coupling":
            model = B.Coupling(key, transformer=_transformer(case["tp"]), untransformed_dim=case["u"], dim=dim, cond_dim=cond,
                               nn_width=case["w"], nn_depth=case["d"])
        else:
            model = B.BlockAutoregressiveNetwork(key, dim=dim, cond_dim=cond, depth=case["d"], block_dim=case["bd"])
        import equinox as eqx

        jac = eqx.filter_jit(lambda m, x, c: (jax.jacfwd(lambda x: m.transform(x, c))(x),
                                      None if c is None else jax.jacfwd(lambda c: m.transform(x, c))(c), m.transform(x, c),
                                      m.transform_and_log_det(x, c)[1]))
        xs = [jnp.asarray(0.4 + 0.3 * np.arange(dim)), jnp.asarray([(-1.0) ** i * (0.5 + i) for i in range(dim)])]
        cs = [None] if cond is None else [jnp.asarray(0.6 + 0.2 * np.arange(cond)), jnp.asarray([(-1.0) ** i * 1.5 for i in range(cond)])]
        modes = ("init", "positive", "mixed1", "mixed50", "dense") if case.get("x64", True) else ("init", "positive", "pos30", "pos60")
        if case.get("lite"):
            modes = ("positive", "mixed1")  # connectivity (all-positive weights) and exact zeros of the forbidden entries
        for mode in modes:
            m = model if mode == "init" else _assign(model, mode, seed)
            for xi, x in enumerate(xs):
                for c in cs:
                    if mode in ("positive", "pos30", "pos60") and (xi != 0 or (c is not None and float(c[0]) < 0)):
                        continue
                    Jx, Jc, y, ld = jac(m, x, c)
                    Jx, y = np.asarray(Jx, float), np.asarray(y, float)
                    tr += 1
                    nt += int(dim >= 2)
                    digest.update(np.ascontiguousarray(np.nan_to_num(Jx)).tobytes())
                    if sample is None and mode == "positive":
                        sample = {"arch": case["id"], "weights": mode, "jacobian_wrt_x": Jx.tolist()}
                    if not np.isfinite(Jx).all():
                        if mode in ("mixed50",):
                            continue  # overflow of an unconstrained network output is not a structural statement
                        add(f"{mode}|nonfinite", f"{case['id']} weights={mode}: Jacobian has non-finite entries")
                        continue
                    upper = np.triu(Jx, 1)
                    if kind == "maf" and np.all(np.diag(Jx) > 0) and np.isfinite(float(ld)):
                        # "its transformer parameters depend only on inputs before i": then d y_i / d x_i is exactly the
                        # transformer's own slope and the triangular determinant equals the reported per-coordinate product
                        dsum = float(np.log(np.diag(Jx)).sum())
                        if abs(dsum - float(ld)) > 1e-8 * (1 + abs(dsum)):
                            add(f"{mode}|parameters-depend-on-own-input", f"{case['id']} weights={mode}: sum log d y_i/d x_i = {dsum!r} but the transformer slopes give {float(ld)!r}: "
                                                                           f"the parameters of some output depend on its own input")
                    if kind in ("maf", "bnaf"):
                        if np.any(upper != 0):
                            i, j = np.argwhere(upper != 0)[0]
                            add(f"{mode}|forbidden-dependency", f"{case['id']} weights={mode}: output {i} depends on input {j} > {i} (dJ = {Jx[i, j]!r})")
                        # strict positivity of the diagonal is the block network's statement; for a masked autoregressive layer
                        # the transformer slope may underflow to 0 for huge network outputs (C11's box is |raw| <= 50)
                        strict = kind == "bnaf" or mode in ("init", "positive")
                        if np.any(np.diag(Jx) <= 0) if strict else np.any(np.diag(Jx) < 0):
                            add(f"{mode}|diagonal", f"{case['id']} weights={mode}: d y_i / d x_i = {np.diag(Jx).tolist()} is not {'strictly ' if strict else ''}positive")
                        if kind == "maf" and mode == "positive" and case["w"] >= dim:
                            low = Jx[np.tril_indices(dim, -1)]
                            if np.any(low == 0):
                                add("positive|missing-dependency", f"{case['id']}: with all-positive weights some output i does not depend on an input j < i: J = {Jx.tolist()}")
                            if Jc is not None and np.any(np.asarray(Jc) == 0) and dim * 0 == 0:
                                if case["d"] >= 0:
                                    add("positive|missing-condition-dependency", f"{case['id']}: with all-positive weights some output does not depend on the condition: dJ/dc = {np.asarray(Jc).tolist()}")
                    else:
                        u = case["u"]
                        if not np.array_equal(y[:u], np.asarray(x)[:u]):
                            add(f"{mode}|first-block-changed", f"{case['id']} weights={mode}: first block {np.asarray(x)[:u].tolist()} returned as {y[:u].tolist()}")
                        if not np.array_equal(Jx[:u], np.eye(dim)[:u]):
                            add(f"{mode}|first-block-jacobian", f"{case['id']} weights={mode}: first block is not passed through unchanged")
                        T_ = Jx[u:, u:]
                        if np.any(T_[~np.eye(dim - u, dtype=bool)] != 0):
                            add(f"{mode}|cross-dependency", f"{case['id']} weights={mode}: a transformed coordinate depends on another transformed coordinate: {T_.tolist()}")
                        if np.any(np.diag(T_) <= 0) if mode in ("init", "positive") else np.any(np.diag(T_) < 0):
                            add(f"{mode}|diagonal", f"{case['id']} weights={mode}: transformer slope not positive: {np.diag(T_).tolist()}")
                        if mode == "positive":
                            if np.any(Jx[u:, :u] == 0):
                                add("positive|missing-dependency", f"{case['id']}: transformed coordinates do not all depend on the first block: {Jx[u:, :u].tolist()}")
                            if Jc is not None and np.any(np.asarray(Jc)[u:] == 0):
                                add("positive|missing-condition-dependency", f"{case['id']}: transformed coordinates do not all depend on the condition")
                        if Jc is not None and np.any(np.asarray(Jc)[:u] != 0):
                            add(f"{mode}|first-block-condition", f"{case['id']} weights={mode}: the first block depends on the condition")
    return {"transitions": tr, "traces": tr, "states": 1, "nontrivial": nt, "violations": viols,
            "outcomes": {f"{kind}:{'ok' if not viols else 'BAD'}": 1}, "digest": digest.hexdigest(), "sample": sample}
