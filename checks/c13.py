"""C13 - malformed inputs are rejected, never silently broadcast.

Legs:
 * method leg: every grammar expression x 4 methods x EVERY shape of the lattice {()} u {1,2,3}^{<=3}
   (40 shapes) different from the declared one, for x and for the condition (plus a missing condition);
   a well-formed call must return exactly the declared shape and a () log-det.
 * class leg (reflection): every concrete AbstractBijection subclass reachable after importing the
   library is probed the same way through an instance (inherited / aliased methods escape the
   class-creation hook only if this leg is silent).
 * distribution leg: log_prob / sample / sample_and_log_prob with mismatching trailing dimensions.
 * constructor leg: every ill-typed application at the boundary of the grammar's type system."""
import hashlib
import itertools

import numpy as np

PROPERTY = "C13"
HORIZON_S = {"quick": 900.0, "thorough": 2400.0}
RULE = (
    "state = expression (or class / distribution / constructor application); transition = one call with one "
    "malformed (or the well-formed) argument shape; non-trivial = malformed shape that NumPy would broadcast to "
    "the declared shape (scalar, size-1 axes, extra leading axis) or has the same element count (transpose / reshape)"
)
ASSUMPTIONS = [
    "any exception type counts as rejection",
    "an unconditional bijection ignores the condition argument (documented), so only conditional ones are probed with malformed conditions",
]

LATTICE = [()] + [s for r in (1, 2, 3) for s in itertools.product((1, 2, 3), repeat=r)]
METHODS = ["transform", "transform_and_log_det", "inverse", "inverse_and_log_det"]


def bounds(tier):
    return {"shape_lattice": "{()} u {1,2,3}^{<=3} (40 shapes)", "grammar_depth": 1 if tier == "quick" else 2,
            "methods": METHODS, "distributions": "Normal, StandardNormal, MVN, Uniform, StudentT, mixtures, 3 flows",
            "constructors": "all ill-shaped Chain/Concatenate/Stack/Partial/Reshape/Vmap/Transformed/Coupling/MAF/BNAF applications over the representative leaves",
            "exhaustive_within_bounds": True}


def enumerate_cases(tier, seed):
    from mc import grammar as g

    specs, _ = g.enumerate_exprs(tier)
    maxd = 1 if tier == "quick" else 2
    cases = []
    for s in specs:
        if g.info(s).depth <= maxd:
            cases.append({"id": "expr|" + g.canon(s), "leg": "expr", "spec": s, "x64": True, "seed": seed, "tier": tier})
    for i in range(4):
        cases.append({"id": f"classes|{i}", "leg": "classes", "part": i, "x64": True, "seed": seed, "tier": tier})
    for i in range(9):
        cases.append({"id": f"dists|{i}", "leg": "dists", "part": i, "x64": True, "seed": seed, "tier": tier})
    for i in range(8):
        cases.append({"id": f"ctor|{i}", "leg": "ctor", "part": i, "x64": True, "seed": seed, "tier": tier})
    return cases


def _broadcastable(wrong, right):
    try:
        return np.broadcast_shapes(wrong, right) == tuple(right)
    except ValueError:
        return False


def probe_bijection(b, shape, cond_shape, fwd, inv, tag, add, counters, valid_value=0.5):
    """All wrong shapes for x and condition on all available methods; returns #transitions, #nontrivial."""
    import jax.numpy as jnp

    tr = nt = 0
    good_c = None if cond_shape is None else jnp.full(cond_shape, 0.3)
    good_x = jnp.full(shape, valid_value)
    avail = [m for m in METHODS if (fwd if m.startswith("transform") else inv)]
    for m in avail:
        f = getattr(b, m)
        # well-formed call: exact declared shape and scalar log-det
        try:
            out = f(good_x, good_c)
            tr += 1
            y, ld = (out if isinstance(out, tuple) else (out, None))
            if tuple(y.shape) != tuple(shape) or (ld is not None and tuple(jnp.shape(ld)) != ()):
                add(f"{tag}|{m}|returned-shape", f"{tag}.{m} returned shape {tuple(y.shape)} / log-det {None if ld is None else tuple(jnp.shape(ld))}; declared {tuple(shape)}")
        except NotImplementedError:
            add(f"{tag}|{m}|raises-on-valid|NotImplementedError", f"{tag}.{m} raised NotImplementedError although the direction exists")
        except Exception as e:
            add(f"{tag}|{m}|raises-on-valid|{type(e).__name__}", f"{tag}.{m} raised on a well-formed call: {type(e).__name__}: {str(e)[:200]}")
        for ws in LATTICE:
            if tuple(ws) == tuple(shape):
                continue
            tr += 1
            nontriv = _broadcastable(ws, shape) or int(np.prod(ws)) == int(np.prod(shape))
            nt += int(nontriv)
            try:
                out = f(jnp.full(ws, valid_value), good_c)
            except Exception:
                counters["rejected"] = counters.get("rejected", 0) + 1
                continue
            y = out[0] if isinstance(out, tuple) else out
            add(f"{tag}|{m}|accepts-wrong-x", f"{tag}.{m} accepted x of shape {ws} (declared {tuple(shape)}) and returned shape {tuple(y.shape)}",
                {"wrong_shape": list(ws), "declared": list(shape)})
        # the same malformed shapes with other accepted ArrayLike dtypes (int32, bool, float16, NumPy float32) and a bare Python int:
        # the shape check must not depend on the dtype path the input takes
        others = [(ws, mk) for ws in LATTICE if tuple(ws) != tuple(shape) and (_broadcastable(ws, shape) or int(np.prod(ws)) == int(np.prod(shape)) or len(ws) <= 1)
                  for mk in (("int32", lambda ws: jnp.ones(ws, jnp.int32)), ("bool", lambda ws: jnp.ones(ws, bool)), ("float16", lambda ws: jnp.full(ws, valid_value, jnp.float16)),
                             ("numpy-float32", lambda ws: np.full(ws, valid_value, np.float32)))]
        if tuple(shape) != ():
            others.append(((), ("python-int", lambda ws: 1)))
        for ws, (dn, mk) in others:
            tr += 1
            try:
                out = f(mk(ws), good_c)
            except Exception:
                counters["rejected"] = counters.get("rejected", 0) + 1
                continue
            y = out[0] if isinstance(out, tuple) else out
            add(f"{tag}|{m}|accepts-wrong-x|{dn}", f"{tag}.{m} accepted a {dn} x of shape {tuple(ws)} (declared {tuple(shape)}) and returned shape {tuple(y.shape)}",
                {"wrong_shape": list(ws), "declared": list(shape), "dtype": dn})
        if cond_shape is not None:
            tr += 1
            try:
                f(good_x, None)
                add(f"{tag}|{m}|accepts-missing-condition", f"{tag}.{m} accepted a missing condition (cond_shape {cond_shape})")
            except Exception:
                counters["rejected"] = counters.get("rejected", 0) + 1
            for ws in LATTICE:
                if tuple(ws) == tuple(cond_shape):
                    continue
                tr += 1
                nontriv = _broadcastable(ws, cond_shape) or int(np.prod(ws)) == int(np.prod(cond_shape))
                nt += int(nontriv)
                try:
                    f(good_x, jnp.full(ws, 0.3))
                except Exception:
                    counters["rejected"] = counters.get("rejected", 0) + 1
                    continue
                add(f"{tag}|{m}|accepts-wrong-condition", f"{tag}.{m} accepted a condition of shape {ws} (declared cond_shape {tuple(cond_shape)})",
                    {"wrong_shape": list(ws), "declared": list(cond_shape)})
    return tr, nt


def _leg_expr(case, add, counters):
    from mc import grammar as g

    spec = case["spec"]
    ii = g.info(spec)
    b = g.build(spec, 0, 0, case["seed"])
    if tuple(b.shape) != ii.shape:
        return 1, 0  # declared shapes are C08's
    tr, nt = probe_bijection(b, ii.shape, ii.cond_shape, ii.fwd, ii.inv, g._cls(spec), add, counters)
    if ii.cond_shape is not None and ii.fwd:
        # the same member called from INSIDE a composite: an embedding network that hands it a condition of the wrong shape (every
        # lattice shape but the declared one) must be rejected by the member's own check, not silently broadcast
        import jax.numpy as jnp

        import flowjax.bijections as FB

        x = jnp.full(ii.shape, 0.5)
        for ws in LATTICE:
            if tuple(ws) == tuple(ii.cond_shape):
                continue
            if not (_broadcastable(ws, ii.cond_shape) or int(np.prod(ws)) == int(np.prod(ii.cond_shape)) or len(ws) <= 1):
                continue
            tr += 1
            nt += 1
            try:
                e = FB.EmbedCondition(b, lambda c, ws=ws: jnp.full(ws, 0.3) + 0.0 * jnp.sum(c), (2,))
                out = e.transform(x, jnp.ones(2))
            except Exception:
                counters["rejected"] = counters.get("rejected", 0) + 1
                continue
            add(f"{g._cls(spec)}|nested|accepts-wrong-condition", f"EmbedCondition({g._cls(spec)}, net -> shape {tuple(ws)}): the member (cond_shape {tuple(ii.cond_shape)}) accepted the embedded "
                                                                   f"condition and returned shape {tuple(jnp.shape(out))}", {"wrong_shape": list(ws)})
    return tr, nt


def _all_subclasses(cls):
    out = []
    for s in cls.__subclasses__():
        out.append(s)
        out += _all_subclasses(s)
    return out


def _leg_classes(case, add, counters):
    import inspect

    import jax.random as jr

    import flowjax.bijections as FB
    import flowjax.bijections.block_autoregressive_network as bn
    import flowjax.flows  # noqa: F401  (classes the factories instantiate)
    from flowjax.bijections.bijection import AbstractBijection
    from mc import grammar as g

    instances = {}

    def walk(obj):
        import jax

        for n in jax.tree_util.tree_leaves(obj, is_leaf=lambda n: isinstance(n, AbstractBijection) and n is not obj):
            if isinstance(n, AbstractBijection):
                instances.setdefault(type(n), n)
                walk(n)

    specs, _ = g.enumerate_exprs("quick")
    seen_kinds = set()
    for s in g.all_leaves():
        if s["k"] not in seen_kinds:
            seen_kinds.add(s["k"])
            specs.append(s)
    for s in specs:
        if g.info(s).depth <= 1:
            try:
                o = g.build(s, 0, 0, 0)
            except Exception:
                continue
            instances.setdefault(type(o), o)
            walk(o)
    pl = FB.Planar(jr.PRNGKey(0), dim=2, negative_slope=0.2)
    up = pl.get_planar()
    instances.setdefault(type(up), up)
    bna = FB.BlockAutoregressiveNetwork(jr.PRNGKey(0), dim=2, depth=1, block_dim=2, activation=g._leaky_callable)
    instances.setdefault(type(bna.activation), bna.activation)
    tr = nt = 0
    uncovered = []
    concrete = [cls for cls in sorted(set(_all_subclasses(AbstractBijection)), key=lambda c: c.__module__ + c.__qualname__)
                if not (inspect.isabstract(cls) or not cls.__module__.startswith("flowjax") or "numpyro" in cls.__module__)]
    for ci_, cls in enumerate(concrete):
        if cls not in instances:
            if case.get("part", 0) == 0:
                uncovered.append(cls.__qualname__)
            continue
        if ci_ % 4 != case.get("part", 0):
            continue
        o = instances[cls]
        fwd = True
        inv = not isinstance(o, bn._CallableToBijection) and not (getattr(o, "negative_slope", 0) is None)
        a, b_ = probe_bijection(o, tuple(o.shape), None if o.cond_shape is None else tuple(o.cond_shape), fwd, inv,
                                "class:" + cls.__qualname__, add, counters)
        tr += a
        nt += b_
    counters["classes_probed"] = len(instances)
    if uncovered:
        add("classes|uncovered", f"concrete bijection classes without a probe instance: {uncovered}")
    return tr, nt


def _dists(seed):
    import equinox as eqx
    import jax.numpy as jnp
    import jax.random as jr

    import flowjax.distributions as D
    from flowjax import flows
    from flowjax.bijections import AdditiveCondition

    k = jr.PRNGKey(seed)
    out = [
        ("Normal(3)", D.Normal(jnp.zeros(3), jnp.ones(3))),
        ("StandardNormal(2,3)", D.StandardNormal((2, 3))),
        ("MVN(2)", D.MultivariateNormal(jnp.zeros(2), jnp.eye(2))),
        ("Uniform(2)", D.Uniform(jnp.zeros(2), jnp.ones(2))),
        ("StudentT(3)", D.StudentT(jnp.full(3, 4.0))),
        ("Mixture(Normal(2))", D.VmapMixture(eqx.filter_vmap(D.Normal)(jnp.zeros((3, 2)), jnp.ones((3, 2))), jnp.ones(3))),
        ("coupling(2|cond 3)", flows.coupling_flow(k, base_dist=D.StandardNormal((2,)), cond_dim=3, flow_layers=1, nn_width=3)),
        ("maf(3|cond 2)", flows.masked_autoregressive_flow(k, base_dist=D.StandardNormal((3,)), cond_dim=2, flow_layers=1, nn_width=3)),
        ("UserDist(3|cond 2, own argument names)", _user_dist()),
    ]
    return out


def _user_dist():
    """A user-defined distribution following the documented recipe, with its own (positional) argument names."""
    import jax.numpy as jnp
    import jax.random as jr

    import flowjax.distributions as D

    class UserDist(D.AbstractDistribution):
        shape: tuple = (3,)
        cond_shape: tuple = (2,)

        def _log_prob(self, value, context=None):
            return -0.5 * jnp.sum((value - jnp.sum(context)) ** 2)

        def _sample(self, rng, context=None):
            return jr.normal(rng, (3,)) + jnp.sum(context)

    return UserDist()


def _leg_dists(case, add, counters):
    import jax.numpy as jnp
    import jax.random as jr

    name, d = _dists(case["seed"])[case["part"]]
    shape, cshape = tuple(d.shape), None if d.cond_shape is None else tuple(d.cond_shape)
    tr = nt = 0
    key = jr.PRNGKey(0)
    good_c = None if cshape is None else jnp.full(cshape, 0.2)
    nd = len(shape)
    for ws in LATTICE:
        # trailing dims mismatch <=> ws[-nd:] != shape (for nd>=1; shorter than nd is also a mismatch)
        mismatch = len(ws) < nd or tuple(ws[len(ws) - nd:]) != shape
        if not mismatch:
            continue
        tr += 1
        nt += int(_broadcastable(ws, shape))
        try:
            out = d.log_prob(jnp.full(ws, 0.4), good_c)
            add(f"dist:{name}|log_prob|accepts-wrong-x", f"{name}.log_prob accepted x of shape {ws} (event shape {shape}) -> {tuple(out.shape)}")
        except Exception:
            counters["rejected"] = counters.get("rejected", 0) + 1
    if cshape is not None:
        nc = len(cshape)
        for ws in LATTICE:
            mismatch = len(ws) < nc or tuple(ws[len(ws) - nc:]) != cshape
            if not mismatch:
                continue
            for mname, call in (("log_prob", lambda c: d.log_prob(jnp.full(shape, 0.4), c)),
                                ("sample", lambda c: d.sample(key, (), c)),
                                ("sample_and_log_prob", lambda c: d.sample_and_log_prob(key, (), c))):
                tr += 1
                nt += int(_broadcastable(ws, cshape))
                try:
                    call(jnp.full(ws, 0.2))
                    add(f"dist:{name}|{mname}|accepts-wrong-condition", f"{name}.{mname} accepted a condition of shape {ws} (cond_shape {cshape})")
                except Exception:
                    counters["rejected"] = counters.get("rejected", 0) + 1
        for mname, call in (("log_prob", lambda: d.log_prob(jnp.full(shape, 0.4))), ("sample", lambda: d.sample(key))):
            tr += 1
            try:
                call()
                add(f"dist:{name}|{mname}|accepts-missing-condition", f"{name}.{mname} accepted a missing condition")
            except Exception:
                counters["rejected"] = counters.get("rejected", 0) + 1
    # well-formed calls: exact shapes
    tr += 1
    lp = d.log_prob(jnp.full((2, *shape), 0.4), good_c)
    smp = d.sample(key, (3,), good_c)
    if tuple(lp.shape) != (2,) or tuple(smp.shape) != (3, *shape):
        add(f"dist:{name}|returned-shape", f"{name}: log_prob shape {tuple(lp.shape)}, sample shape {tuple(smp.shape)}")
    return tr, nt


def _leg_ctor(case, add, counters):
    """Ill-shaped constructor applications over the representative leaves (sharded in 8 parts)."""
    import jax.numpy as jnp
    import jax.random as jr

    import flowjax.bijections as FB
    import flowjax.distributions as D
    from mc import grammar as g

    reps = g.rep_leaves()
    built = {}

    def B(s):
        k = g.canon(s)
        if k not in built:
            built[k] = g.build(s, 0, 0, 0)
        return built[k]

    apps = []  # (tag, description, thunk)
    infos = [(s, g.info(s)) for s in reps]
    for (a, ai), (b, bi) in itertools.product(infos, repeat=2):
        conds = {c for c in (ai.cond_shape, bi.cond_shape) if c is not None}
        if ai.shape != bi.shape:
            apps.append(("Chain|shape-mismatch", f"Chain([{ai.shape},{bi.shape}])", lambda a=a, b=b: FB.Chain([B(a), B(b)])))
            apps.append(("Stack|shape-mismatch", f"Stack([{ai.shape},{bi.shape}])", lambda a=a, b=b: FB.Stack([B(a), B(b)])))
        elif len(conds) > 1:
            apps.append(("Chain|cond-mismatch", f"Chain(cond {ai.cond_shape},{bi.cond_shape})", lambda a=a, b=b: FB.Chain([B(a), B(b)])))
            apps.append(("Stack|cond-mismatch", f"Stack(cond {ai.cond_shape},{bi.cond_shape})", lambda a=a, b=b: FB.Stack([B(a), B(b)])))
        r = len(ai.shape)
        if r == len(bi.shape) and r > 0:
            for ax in range(-r, r):
                off = lambda s, ax=ax: tuple(v for i, v in enumerate(s) if i != ax % r)  # noqa: E731
                if off(ai.shape) != off(bi.shape) or len(conds) > 1:
                    apps.append(("Concatenate|mismatch", f"Concatenate([{ai.shape},{bi.shape}],axis={ax}) cond {ai.cond_shape},{bi.cond_shape}",
                                 lambda a=a, b=b, ax=ax: FB.Concatenate([B(a), B(b)], axis=ax)))
        elif r != len(bi.shape) and r > 0:
            apps.append(("Concatenate|rank-mismatch", f"Concatenate([{ai.shape},{bi.shape}])", lambda a=a, b=b: FB.Concatenate([B(a), B(b)])))
    # mismatching conditional members separated by an unconditional one (a pairwise neighbour comparison misses these)
    conds = [(a, ai) for a, ai in infos if ai.cond_shape is not None]
    unconds = [(a, ai) for a, ai in infos if ai.cond_shape is None]
    for shp_ in ([], [2], [3], [2, 3]):  # same shape, three different condition shapes (the representatives rarely offer that)
        for cs_ in ([], [2], [3]):
            sp = g.L("AddCond", shape=shp_, cond=cs_)
            conds.append((sp, g.info(sp)))
        sp = g.L("Affine", shape=shp_)
        unconds.append((sp, g.info(sp)))
    for (a, ai), (b, bi) in itertools.product(conds, repeat=2):
        if ai.cond_shape == bi.cond_shape or ai.shape != bi.shape:
            continue
        for u, ui in unconds:
            if ui.shape != ai.shape:
                continue
            for nm, ctor in (("Chain", lambda xs: FB.Chain(xs)), ("Stack", lambda xs: FB.Stack(xs)), ("Stack(-1)", lambda xs: FB.Stack(xs, axis=-1)),
                             ("Concatenate", lambda xs: FB.Concatenate(xs))):
                if nm == "Concatenate" and len(ai.shape) == 0:
                    continue
                for order in ((a, u, b), (u, a, u, b), (a, u, u, b)):
                    apps.append((f"{nm}|cond-mismatch-separated", f"{nm}(cond {ai.cond_shape}, unconditional, cond {bi.cond_shape}) order {len(order)}",
                                 lambda order=order, ctor=ctor: ctor([B(x) for x in order])))
    for a, ai in infos:
        n = int(np.prod(ai.shape))
        for ws in LATTICE:
            if int(np.prod(ws)) != n:
                apps.append(("Reshape|element-count", f"Reshape({ai.shape} -> {ws})", lambda a=a, ws=ws: FB.Reshape(B(a), ws)))
            if ai.cond_shape is not None and int(np.prod(ws)) != int(np.prod(ai.cond_shape)):
                apps.append(("Reshape|cond-element-count", f"Reshape(cond {ai.cond_shape} -> {ws})", lambda a=a, ws=ws: FB.Reshape(B(a), None, ws)))
        if ai.cond_shape is None:
            apps.append(("Reshape|cond-of-unconditional", f"Reshape(unconditional, cond_shape=(2,))", lambda a=a: FB.Reshape(B(a), None, (2,))))
        # Partial: index sets that do not select the child's shape
        for ps, ix in g.partial_indices(ai.shape):
            for delta in (1, 2):
                bad_parent = tuple(d + delta for d in ps)
                sel = None
                try:
                    sel = np.zeros(bad_parent)[g.make_index(ix)].shape
                except Exception:
                    pass
                if sel != ai.shape:
                    apps.append(("Partial|index-does-not-fit", f"Partial(child {ai.shape}, idx {ix}, shape {bad_parent})",
                                 lambda a=a, ix=ix, bp=bad_parent: FB.Partial(B(a), _jidx(g.make_index(ix)), bp)))
        apps.append(("Vmap|both-or-neither", "Vmap(in_axes and axis_size)", lambda a=a: FB.Vmap(B(a), in_axes=0, axis_size=2)))
        apps.append(("Vmap|both-or-neither", "Vmap(neither)", lambda a=a: FB.Vmap(B(a))))
        if ai.shape != () or ai.cond_shape is not None:
            k = jr.PRNGKey(0)
            apps.append(("Coupling|transformer-shape", f"Coupling(transformer shape {ai.shape} cond {ai.cond_shape})",
                         lambda a=a: FB.Coupling(k, transformer=B(a), untransformed_dim=1, dim=3, nn_width=2, nn_depth=1)))
            apps.append(("MAF|transformer-shape", f"MAF(transformer shape {ai.shape})",
                         lambda a=a: FB.MaskedAutoregressive(k, transformer=B(a), dim=3, nn_width=2, nn_depth=1)))
            apps.append(("BNAF|activation-shape", f"BNAF(activation shape {ai.shape})",
                         lambda a=a: FB.BlockAutoregressiveNetwork(k, dim=2, depth=1, block_dim=2, activation=B(a))))
        # Transformed with mismatched cond shapes (conditional base x conditional bijection)
        if ai.cond_shape is not None and len(ai.shape) == 1:
            for cs in [(1,), (3,), (2, 2), ()]:
                if cs != ai.cond_shape:
                    apps.append(("Transformed|cond-mismatch", f"Transformed(base cond {cs}, bijection cond {ai.cond_shape})",
                                 lambda a=a, cs=cs, ai=ai: D.Transformed(
                                     D.Transformed(D.StandardNormal(ai.shape), FB.AdditiveCondition(lambda c: jnp.sum(c), ai.shape, cs)), B(a))))
    # Partial with a boolean mask: NumPy semantics - the mask must match the LEADING dimensions of the parent shape. Every
    # (parent shape, mask shape, mask pattern) that does not fit is tried with every child shape of the lattice (also as a
    # NumPy mask): no combination may be accepted.
    parents = [(2,), (3,), (2, 3), (3, 2), (2, 2), (2, 3, 2), (3, 1)]
    mask_shapes = [(1,), (2,), (3,), (4,), (2, 2), (2, 3), (3, 2), (3, 3), (1, 2)]
    child_shapes = [(), (1,), (2,), (3,), (2, 3), (3, 2), (2, 2), (1, 3), (2, 1), (1, 2), (2, 3, 2), (1, 3, 2), (2, 2, 2)]
    for ps in parents:
        for ms in mask_shapes:
            if len(ms) <= len(ps) and ms == ps[: len(ms)]:
                continue  # fits
            n_ = int(np.prod(ms))
            for pat in ({0}, {0, n_ - 1}, set(range(n_)) - {1 % n_}):
                mask = np.zeros(n_, bool)
                mask[list(pat)] = True
                mask = mask.reshape(ms)
                for cs in child_shapes:
                    for as_np in (False, True):
                        apps.append(("Partial|bool-mask-does-not-fit", f"Partial(child {cs}, boolean mask of shape {ms} = {mask.astype(int).tolist()}, parent shape {ps})",
                                     lambda cs=cs, mask=mask, ps=ps, as_np=as_np: FB.Partial(FB.Exp(cs), mask if as_np else jnp.asarray(mask), ps)))
    # Partial with integer indices outside the parent shape (NumPy raises IndexError; an index that selects nothing of x "does not fit")
    for ps in [(3,), (2, 3), (3, 1)]:
        n0 = ps[0]
        for bad_i in (n0, n0 + 2, -n0 - 1):
            apps.append(("Partial|index-out-of-range", f"Partial(idx {bad_i}, parent shape {ps})", lambda ps=ps, bad_i=bad_i: FB.Partial(FB.Exp(ps[1:]), bad_i, ps)))
            for arr in ([0, bad_i], [bad_i], [bad_i, 0, 1][: max(1, n0)]):
                for as_np in (False, True):
                    apps.append(("Partial|index-out-of-range", f"Partial(idx array {arr}, parent shape {ps})",
                                 lambda ps=ps, arr=arr, as_np=as_np: FB.Partial(FB.Exp((len(arr),) + ps[1:]), np.asarray(arr) if as_np else jnp.asarray(arr), ps)))
            if len(ps) == 2:
                apps.append(("Partial|index-out-of-range", f"Partial(idx (0, {ps[1] + 1}), parent shape {ps})", lambda ps=ps: FB.Partial(FB.Exp(()), (0, ps[1] + 1), ps)))
    apps.append(("TriangularAffine|non-square", "TriangularAffine(arr 2x3)", lambda: FB.TriangularAffine(0, jnp.ones((2, 3)))))
    apps.append(("Inverter|lower>=upper", "AutoregressiveBisectionInverter(lower=1, upper=1)",
                 lambda: __import__("flowjax.bisection_search", fromlist=["x"]).AutoregressiveBisectionInverter(lower=1.0, upper=1.0)))
    tr = nt = 0
    for i, (tag, desc, thunk) in enumerate(apps):
        if i % 8 != case["part"]:
            continue
        tr += 1
        nt += 1
        try:
            obj = thunk()
        except Exception:
            counters["rejected"] = counters.get("rejected", 0) + 1
            continue
        add(f"ctor|{tag}", f"constructor accepted an incompatible application: {desc} -> {type(obj).__name__}")
    counters["ctor_applications_total"] = len(apps) if case["part"] == 0 else 0
    return tr, nt


def _jidx(idx):
    import jax.numpy as jnp

    if isinstance(idx, np.ndarray):
        return jnp.asarray(idx)
    if isinstance(idx, tuple):
        return tuple(_jidx(i) for i in idx)
    return idx


def run_case(case):
    viols, counters = [], {}
    seen = {}

    def add(sig, msg, detail=None):
        seen[sig] = seen.get(sig, 0) + 1
        if seen[sig] <= 2:
            viols.append({"sig": "C13|" + sig, "msg": msg, "detail": detail or {}})

    leg = {"expr": _leg_expr, "classes": _leg_classes, "dists": _leg_dists, "ctor": _leg_ctor}[case["leg"]]
    tr, nt = leg(case, add, counters)
    for v in viols:
        k = v["sig"][4:]
        if seen.get(k, 0) > 2:
            v["msg"] += f"  [{seen[k]} malformed arguments with this signature]"
    outcomes = {f"{case['leg']}:{'ok' if not viols else 'BAD'}": 1}
    return {"transitions": tr, "traces": tr, "states": 1, "nontrivial": nt, "violations": viols, "outcomes": outcomes,
            "counters": counters, "digest": hashlib.sha1(repr((tr, nt, sorted(seen.items()))).encode()).hexdigest(),
            "sample": {"leg": case["leg"], "calls": tr, "rejected": counters.get("rejected", 0)}}
