"""C03 - transformed densities obey change of variables on both evaluation paths.

For every (base distribution, bijection expression | factory | nested transform) the three public
evaluation paths are compared with their definitions written over public members only
(dist.base_dist, dist.bijection):
   log_prob(x)              == base.log_prob(b.inverse(x,c), c) + b.inverse_and_log_det(x,c)[1]
   sample(key)              == b.transform(base.sample(key, (), c), c)
   sample_and_log_prob(key) == (s, log_prob(s))
   merge_transforms()       gives the same three results."""
import hashlib

import numpy as np

PROPERTY = "C03"
HORIZON_S = {"quick": 900.0, "thorough": 2400.0}
RULE = (
    "state = (base distribution kind, bijection expression | factory config | nesting); transition = one comparison "
    "of one evaluation path with its definition at one (parameter level, key / input, condition); non-trivial = "
    "|log det| > 1e-3 at the evaluated point"
)
ASSUMPTIONS = ["both sides evaluate the same leaf code: agreement to 1e-9 relative (float64); the bijection side is judged by C01/C02",
               "numerically inverted directions (BNAF) use 1e-3 relative; the cross-path comparison log_prob(sample) adds 1e3 x the observed inversion error of the base point"]
BASES = ["StandardNormal", "Normal", "StudentT", "Uniform", "CondBase"]


def bounds(tier):
    return {"bases": BASES, "expressions": "quick: one per (combinator kind, option, child class) at depth<=1, one base per composition (all five bases for leaves); thorough: all at depth<=2, one base per composition (cycling)",
            "factories": "8 configs x invert T/F x cond None/2", "levels": [0, 1], "keys": 2, "nested": "three nesting levels Transformed(Transformed(Transformed(base,b1),b2),b3) for 12 triples + merge_transforms",
            "exhaustive_within_bounds": True}


def enumerate_cases(tier, seed):
    from checks import c01
    from mc import grammar as g

    specs, _ = g.enumerate_exprs(tier)
    maxd = 1 if tier == "quick" else 2
    sel = [s for s in specs if g.info(s).depth <= maxd]
    if tier == "quick":
        sel = g._one_per_kind(sel)
    cases = []
    for si, s in enumerate(sel):
        for bi, base in enumerate(BASES):
            if tier == "quick" and "c" in s and bi != (4 if si % 2 else (si // 2) % 4):
                continue  # quick: compositions alternate between the conditional base and one of the four others
            if tier != "quick" and "c" in s and bi != (4 if si % 2 else (si // 2) % 4):
                continue  # thorough: every composition of the full grammar to depth 2 gets one base, cycling through all five
            cases.append({"id": f"{base}|" + g.canon(s), "leg": "expr", "spec": s, "base": base, "x64": True, "seed": seed})
    for f in c01.FACTORIES:
        for inv in (True, False):
            for cond in (None, 2):
                cases.append({"id": f"factory|{f}|invert={int(inv)}|cond={cond}", "leg": "factory", "factory": f, "invert": inv, "cond": cond,
                              "x64": True, "seed": seed})
    for i in range(12):
        cases.append({"id": f"nested|{i}", "leg": "nested", "i": i, "x64": True, "seed": seed})
    cases.sort(key=lambda c: (0 if c["leg"] == "factory" else 1, -len(c["id"])))
    return cases


def make_base(kind, shape, cond_shape, seed):
    import jax.numpy as jnp

    import flowjax.bijections as B
    import flowjax.distributions as D
    from mc.grammar import _cond_map

    n = max(1, int(np.prod(shape)))
    i = np.arange(n)
    loc = jnp.asarray((0.6 * np.sin(1.3 * i + seed)).reshape(shape))
    sc = jnp.asarray((0.7 + 0.3 * i).reshape(shape))
    if kind == "StandardNormal":
        return D.StandardNormal(shape)
    if kind == "Normal":
        return D.Normal(loc, sc)
    if kind == "StudentT":
        return D.StudentT(jnp.asarray((2.5 + i).reshape(shape)), loc, sc)
    if kind == "Uniform":
        return D.Uniform(loc - 2.0, loc + sc * 3)
    cs = cond_shape if cond_shape is not None else (2,)
    return D.Transformed(D.Normal(loc, sc), B.AdditiveCondition(_cond_map(shape, cs, 3.0 + seed), shape, cs))


def tree_close(a, b, rt):
    a, b = np.asarray(a, float), np.asarray(b, float)
    if a.shape != b.shape:
        return False
    with np.errstate(invalid="ignore"):
        # an infinite reference must be met exactly (|a - b| <= rt * (1 + inf) would accept anything)
        return bool(np.all((np.isfinite(b) & (np.abs(a - b) <= rt * (1 + np.abs(b)))) | (a == b) | (np.isnan(a) & np.isnan(b))))


_PATHS = {}


def _paths(fwd, inv):
    """One jitted program per (structure, available directions) computing every path and its definition."""
    if (fwd, inv) in _PATHS:
        return _PATHS[(fwd, inv)]
    import equinox as eqx
    import jax.numpy as jnp

    @eqx.filter_jit
    def f(dist, key, x, cond):
        base, b = dist.base_dist, dist.bijection
        cb = cond if base.cond_shape is not None else None
        out = {}
        if fwd:
            out["s"] = dist.sample(key, (), cond)
            out["s_def"] = b.transform(base.sample(key, (), cb), cond)
            out["s2"], out["lp2"] = dist.sample_and_log_prob(key, (), cond)
            zz, lpb = base.sample_and_log_prob(key, (), cb)
            out["lp2_def"] = lpb - b.transform_and_log_det(zz, cond)[1]
            if inv:
                out["lp_s"] = dist.log_prob(out["s2"], cond)
                out["dz"] = jnp.max(jnp.abs(b.inverse(out["s2"], cond) - zz)) if zz.size else jnp.zeros(())
        if inv:
            out["lp_x"] = dist.log_prob(x, cond)
            _, ld = b.inverse_and_log_det(x, cond)
            want = base.log_prob(b.inverse(x, cond), cb) + ld
            out["lp_x_def"] = jnp.where(jnp.isnan(want), -jnp.inf, want)
            out["ld"] = ld
            out["z"] = b.inverse(x, cond)
        return out

    _PATHS[(fwd, inv)] = f
    return f


def judge(dist, fwd, inv, rt, add, tag, keys, xs, cond, counters, support=None, total=False):
    """Returns transitions. ``support`` = (lo, hi) arrays of a box-supported base: an inverse image outside the box must give
    exactly -inf (judged without the base's own public log_prob, which shares log_prob's NaN / infinity handling)."""
    import jax.numpy as jnp

    f = _paths(bool(fwd), bool(inv))
    tr = 0
    xs = [jnp.asarray(x, float) for x in xs]
    for ki, key in enumerate(keys):
        for xi, x in enumerate(xs if inv else xs[:1]):
            if xi > 0 and ki > 0:
                continue
            o = {k: np.asarray(v) for k, v in f(dist, key, x, cond).items()}
            if fwd and xi == 0:
                tr += 3
                if not tree_close(o["s"], o["s_def"], rt):
                    add(f"{tag}|sample", f"{tag}: sample(key) = {o['s'].tolist()} but bijection.transform(base.sample(key)) = {o['s_def'].tolist()}")
                if not tree_close(o["s2"], o["s"], rt):
                    add(f"{tag}|joint-sample", f"{tag}: sample_and_log_prob(key)[0] differs from sample(key)")
                if not tree_close(o["lp2"], o["lp2_def"], rt):
                    add(f"{tag}|joint-definition", f"{tag}: joint log-prob {float(o['lp2'])!r} != base log-prob - forward log-det {float(o['lp2_def'])!r}")
                if inv:
                    tr += 1
                    dz = float(o["dz"])
                    # cross-path: log_prob re-inverts the sample; the admissible difference scales with how well
                    # the inverse recovers the base point (conditioning of the map at that point)
                    if np.isfinite(dz) and not tree_close(o["lp2"], o["lp_s"], max(rt, 1e-8) + 1e3 * dz):
                        add(f"{tag}|joint-logprob", f"{tag}: log-prob returned with the sample {float(o['lp2'])!r} != log_prob(sample) {float(o['lp_s'])!r}")
            if inv:
                tr += 1
                counters["nontrivial"] = counters.get("nontrivial", 0) + int(abs(float(o["ld"])) > 1e-3)
                zf = np.asarray(o["z"], float)
                # only a NaN next to moderate values: an inverse image that overflows (+-inf, or entries beyond 1e6 on the way there) is a
                # legitimately remote preimage of a strongly contracting map, not a missing one
                if total and np.isnan(zf).any() and not np.isinf(zf).any() and np.all(np.abs(zf[np.isfinite(zf)]) <= 1e6) and np.all(np.abs(np.asarray(x)) <= 1e3):
                    # the codomain is all of R^n (grammar type system): every moderate x HAS an inverse image; a NaN there makes log_prob
                    # -inf at a point where the density is positive (both sides of the comparison below would agree on that -inf)
                    add(f"{tag}|no-inverse-image", f"{tag}: the bijection's inverse at x = {np.asarray(x).tolist()} is {o['z'].tolist()}, so log_prob(x) = {float(o['lp_x'])!r} "
                                                   f"although x is an image point (codomain R^n)")
                if support is not None and np.all(np.isfinite(o["z"])):
                    lo_, hi_ = support
                    if np.any((o["z"] < lo_ - 1e-9) | (o["z"] > hi_ + 1e-9)):
                        counters["outside_support_points"] = counters.get("outside_support_points", 0) + 1
                        if not (o["lp_x"] == -np.inf):
                            add(f"{tag}|log_prob-outside-support", f"{tag}: the inverse image {o['z'].tolist()} of x = {np.asarray(x).tolist()} lies outside the base's support "
                                                                   f"[{np.asarray(lo_).tolist()}, {np.asarray(hi_).tolist()}] but log_prob(x) = {float(o['lp_x'])!r}, not -inf")
                if o["lp_x"].shape != () or not tree_close(o["lp_x"], o["lp_x_def"], rt):
                    add(f"{tag}|log_prob", f"{tag}: log_prob({np.asarray(x).tolist()}) = {float(o['lp_x'])!r} but base.log_prob(inverse(x)) + inverse log-det = {float(o['lp_x_def'])!r} (log-det {float(o['ld'])!r})")
    return tr


def run_case(case):
    import jax
    import jax.numpy as jnp
    import jax.random as jr

    import flowjax.distributions as D
    from checks import c01
    from mc import grammar as g

    seed = case["seed"]
    viols, seen, counters = [], {}, {}
    tr = 0
    sample = None
    keys = [jr.PRNGKey(31 * seed + 5), jr.PRNGKey(31 * seed + 6)]

    def add(sig, msg):
        seen[sig] = seen.get(sig, 0) + 1
        if seen[sig] <= 1:
            viols.append({"sig": "C03|" + sig, "msg": msg, "detail": {}})

    if case["leg"] == "expr":
        spec = case["spec"]
        ii = g.info(spec)
        tag = f"{case['base']}>{g._cls(spec)}"
        for level in (0, 1):
            b = g.build(spec, 0, level, seed)
            if tuple(b.shape) != ii.shape:
                continue
            if np.any(ii.dom != "R"):
                continue  # the base distributions have full real support: the bijection must be defined on all of it
            if case["base"] == "CondBase" and ii.cond_shape is not None and len(ii.cond_shape) == 0 and False:
                continue
            base = make_base(case["base"], ii.shape, ii.cond_shape, seed)
            try:
                dist = D.Transformed(base, b)
            except Exception as e:
                add(f"{tag}|construct|{type(e).__name__}", f"{tag}: Transformed raised {type(e).__name__}: {str(e)[:200]}")
                continue
            cs = dist.cond_shape
            cond = None if cs is None else jnp.asarray((0.8 * np.sin(1.1 * np.arange(max(1, int(np.prod(cs)))) + 0.5)).reshape(cs))
            xs = []
            if not ii.fwd or np.any(ii.cod == "X"):
                xs = [np.full(ii.shape, v) for v in (0.3, -0.4)] if not np.any(np.isin(ii.cod, ["P"])) else [np.full(ii.shape, 0.7)]
            xs.append(np.full(ii.shape, 0.45))
            support = None
            if case["base"] == "Uniform":
                support = (np.asarray(base.minval, float), np.asarray(base.maxval, float))
                if not np.any(np.isin(ii.cod, ["P", "X"])):
                    xs += [np.full(ii.shape, 60.0), np.full(ii.shape, -45.0)]  # far outside any image of the base's box
            # every constant the bijection's formulas compare against (interval ends, knots, +-max_val, ...) as a data point
            from mc import battery as bt

            consts = sorted({float(c_) for c_ in bt.boundary_constants(b) if np.isfinite(c_) and abs(c_) <= 1e3}, key=lambda v: (abs(v), v))
            if not np.any(np.isin(ii.cod, ["P", "X"])):
                xs += [np.full(ii.shape, c_) for c_ in consts[:8]]
            rt = 1e-3 if (ii.num_fwd or ii.num_inv) else 1e-9
            try:
                tr += judge(dist, ii.fwd, ii.inv, rt, add, tag, keys, xs, cond, counters, support, total=bool(np.all(ii.cod == "R")))
            except Exception as e:
                add(f"{tag}|raises|{type(e).__name__}", f"{tag} level {level}: {type(e).__name__}: {str(e)[:300]}")
        sample = {"dist": tag}
    elif case["leg"] == "factory":
        fi = c01.factory_info(case["factory"], case["invert"], case["cond"])
        tag = f"factory:{case['factory']}|invert={int(case['invert'])}|cond={case['cond']}"
        # keys whose BASE draw has a coordinate beyond 2.3 resp. 4.5 (outside the spline intervals the factories use, in a flat
        # LeakyTanh tail): found by enumerating keys, so the joint path is exercised on the tails of the transformers as well
        tail_keys = []
        for thr in (2.3, 4.0):
            for k_ in range(4000):
                kk = jr.PRNGKey(k_)
                if float(jnp.max(jnp.abs(D.StandardNormal((2,)).sample(kk)))) > thr:
                    tail_keys.append(kk)
                    break
        for level in (0, 1, 2):
            dist = c01.build_factory(case["factory"], case["invert"], case["cond"], seed, level)
            cond = None if case["cond"] is None else jnp.asarray([0.7, -1.3])
            rt = 1e-3 if (fi.num_fwd or fi.num_inv) else 1e-9
            tr += judge(dist, fi.fwd, fi.inv, rt, add, tag, keys + tail_keys, [np.asarray([0.4, -0.9]), np.asarray([-2.0, 1.5]), np.asarray([2.0, -3.1])], cond, counters)
        sample = {"dist": tag}
    else:
        i = case["i"]
        reps = [s for s in g.rep_leaves() if g.info(s).shape == (2,) and g.info(s).inv and g.info(s).fwd and not np.any(g.info(s).cod != "R")]
        pairs = [(a, b) for a in reps for b in reps if a is not b]
        a, b_ = pairs[(i * 5) % len(pairs)]
        tag = f"nested:{a['k']},{b_['k']}"
        for level in (0, 1):
            b1, b2 = g.build(a, 1, level, seed), g.build(b_, 2, level, seed)
            base = make_base(BASES[i % len(BASES)], (2,), g.info(a).cond_shape or g.info(b_).cond_shape, seed)
            try:
                inner = D.Transformed(base, b1)
                nested = D.Transformed(inner, b2)
                merged = nested.merge_transforms()
            except Exception as e:
                add(f"{tag}|construct|{type(e).__name__}", f"{tag}: {type(e).__name__}: {str(e)[:200]}")
                continue
            # three nesting levels with non-commuting maps (the order of the flattened chain matters)
            a3 = reps[(i * 7 + 3) % len(reps)]
            if g.info(a3).cond_shape is None or nested.cond_shape is None or g.info(a3).cond_shape == nested.cond_shape:
                try:
                    nested = D.Transformed(nested, g.build(a3, 3, level, seed))
                    merged = nested.merge_transforms()
                    tag = f"nested:{a['k']},{b_['k']},{a3['k']}"
                except Exception as e:
                    add(f"{tag}|construct3|{type(e).__name__}", f"{tag}: {type(e).__name__}: {str(e)[:200]}")
            cs = nested.cond_shape
            cond = None if cs is None else jnp.asarray([0.3, -0.8])
            rt = 1e-3 if (g.info(a).num_inv or g.info(b_).num_inv or g.info(a3).num_inv) else 1e-9
            tr += judge(nested, True, True, rt, add, tag, keys, [np.asarray([0.2, -0.5])], cond, counters)
            if isinstance(merged.base_dist, D.AbstractTransformed) and not isinstance(base, D.AbstractTransformed):
                add(f"{tag}|merge-not-flat", f"{tag}: merge_transforms left a nested AbstractTransformed base")
            for key in keys:
                s0, l0 = nested.sample_and_log_prob(key, (), cond)
                s1, l1 = merged.sample_and_log_prob(key, (), cond)
                tr += 2
                if not (tree_close(s0, s1, 1e-9) and tree_close(l0, l1, 1e-9)):  # same forward computations on both sides
                    add(f"{tag}|merge-sample", f"{tag}: merge_transforms changed sample_and_log_prob: {np.asarray(s0).tolist()} / {float(l0)} vs {np.asarray(s1).tolist()} / {float(l1)}")
                x = jnp.asarray([0.2, -0.5])
                if not tree_close(nested.log_prob(x, cond), merged.log_prob(x, cond), 1e-9):
                    add(f"{tag}|merge-log_prob", f"{tag}: merge_transforms changed log_prob")
        sample = {"dist": tag}
    return {"transitions": tr, "traces": tr, "states": 1, "nontrivial": counters.get("nontrivial", 0), "violations": viols, "counters": {"outside_support_points": counters.get("outside_support_points", 0)},
            "outcomes": {f"{case['leg']}:{'ok' if not viols else 'BAD'}": 1},
            "digest": hashlib.sha1(repr((tr, sorted(seen))).encode()).hexdigest(), "sample": sample}
