"""C08 - combinators mean what their definitions say, for every shape and axis.

Reference = a small interpreter of the combinators' DEFINITIONS (NumPy split / take / stack /
concatenate / fancy-index assignment, Python loops) over the children's own public methods; declared
shapes are compared with the grammar's type system (NumPy semantics). The real combinator (jitted)
must agree with the interpreter on all four methods."""
import hashlib

import numpy as np

PROPERTY = "C08"
HORIZON_S = {"quick": 900.0, "thorough": 2400.0}
RULE = (
    "state = canonical combinator expression tree; transition = one comparison of a real method result "
    "(transform / inverse, plain and and-log-det, log-det) with the reference interpreter at one (level, condition, "
    "input), plus declared shape / cond_shape vs the reference shape calculus and the function-preserving rewrites "
    "(merge_chains, indexing, slicing); non-trivial = expression with >=2 distinct children or a non-default axis/index"
)
ASSUMPTIONS = [
    "leaves are taken as given (C07 judges them); the interpreter calls the children's public methods",
    "real vs reference agree to 1e-9 relative (float64): both evaluate the same leaf code, only composition differs",
]
RTOL = 1e-9


def bounds(tier):
    from mc import grammar as g

    _, desc = g.enumerate_exprs(tier)
    return {"grammar": desc, "levels": [1] if tier == "quick" else [0, 1, 2], "conditions": 2, "inputs_per_state": 24,
            "axes": "every valid axis incl. negative for Stack/Concatenate/Vmap condition axis", "partial_index_kinds":
            ["int", "negative int", "slice", "strided slice", "int array", "bool array", "tuple", "ellipsis tuple"],
            "merge_transforms": "every word of length 1-4 (thorough 1-5) over {Affine, TriangularAffine, AdditiveCondition, Flip} nested over StandardNormal and Normal (2-6 levels)",
            "input_dtypes": "every expression with real domain (quick: depth <= 1) on two int32 / float32 / float16 arrays vs the same values as float64",
            "exhaustive_within_bounds": True}


def enumerate_cases(tier, seed):
    from mc import grammar as g

    specs, _ = g.enumerate_exprs(tier)
    cases = [{"id": g.canon(s), "spec": s, "x64": True, "tier": tier, "seed": seed} for s in specs if "c" in s]
    cases.sort(key=lambda c: -len(c["id"]))
    # merge_transforms: every nesting of 2-4 (quick) / 2-5 (thorough) non-commuting bijections over two bases
    for part in range(MT_PARTS):
        cases.append({"id": f"merge_transforms|{part}", "mt": part, "x64": True, "tier": tier, "seed": seed})
    return cases


MT_PARTS = 8
MT_ALPHABET = ["Affine", "TriAffine", "AddCond", "Flip"]  # pairwise non-commuting (Affine has distinct per-coordinate scales)
# composite members: merging must keep the ORDER inside a nested Chain and REVERSE it inside an inverted one
MT_COMPOSITE = ["InvChain", "Chain2", "InvAffine", "InvChainCond"]


def _mt_bijection(name, pos, seed):
    import jax.numpy as jnp

    import flowjax.bijections as B

    t = 0.1 * pos + 0.01 * seed
    if name == "Affine":
        return B.Affine(jnp.asarray([0.3 + t, -0.7]), jnp.asarray([1.5, 0.6 + t]))
    if name == "TriAffine":
        return B.TriangularAffine(jnp.asarray([0.1, -0.2 - t]), jnp.asarray([[1.2, 0.0], [0.7 + t, 0.8]]))
    if name == "AddCond":
        return B.AdditiveCondition(_mt_cond_fn, (2,), (2,))
    if name == "InvChain":
        return B.Invert(B.Chain([_mt_bijection("Affine", pos + 3, seed), _mt_bijection("TriAffine", pos + 5, seed), B.Flip((2,))]))
    if name == "InvChainCond":
        return B.Invert(B.Chain([_mt_bijection("TriAffine", pos + 2, seed), _mt_bijection("AddCond", pos, seed)]))
    if name == "Chain2":
        return B.Chain([_mt_bijection("TriAffine", pos + 4, seed), B.Chain([B.Flip((2,)), _mt_bijection("Affine", pos + 6, seed)])])
    if name == "InvAffine":
        return B.Invert(_mt_bijection("Affine", pos + 1, seed))
    return B.Flip((2,))


def _mt_cond_fn(c):
    return 0.5 * c + 0.25 * c[::-1] ** 2


def _run_merge_transforms(case):
    """Transformed(...Transformed(Transformed(base, b1), b2)..., bn).merge_transforms() must be the same distribution: same
    shape / cond_shape, bit-comparable samples for a key, same log_prob; its base must not be an AbstractTransformed and its
    bijection a flat Chain of exactly the levels' bijections, innermost first."""
    import itertools

    import jax.numpy as jnp
    import jax.random as jr

    import flowjax.bijections as B
    import flowjax.distributions as D

    seed, tier = case["seed"], case["tier"]
    viols, seen = [], {}
    tr = nt = 0
    digest = hashlib.sha1()
    words = []
    for n in (1, 2, 3, 4) if tier == "quick" else (1, 2, 3, 4, 5):
        words += list(itertools.product(MT_ALPHABET, repeat=n))
    for n in (1, 2, 3) if tier == "quick" else (1, 2, 3, 4):  # words containing at least one composite member
        words += [w for w in itertools.product(MT_ALPHABET[:3] + MT_COMPOSITE, repeat=n) if any(x in MT_COMPOSITE for x in w)]
    X = jnp.asarray([[0.3, -1.1], [1.7, 0.4], [-2.0, 0.05]])
    cnd = jnp.asarray([0.6, -0.9])
    key = jr.PRNGKey(seed + 5)

    def add(tag, msg):
        seen[tag] = seen.get(tag, 0) + 1
        if seen[tag] == 1:
            viols.append({"sig": f"C08|merge_transforms||{tag}", "msg": msg, "detail": {}})

    sample = None
    for wi, word in enumerate(words):
        if wi % MT_PARTS != case["mt"]:
            continue
        for bname in ("StandardNormal", "Normal"):
            base = D.StandardNormal((2,)) if bname == "StandardNormal" else D.Normal(jnp.asarray([0.2, -0.4]), jnp.asarray([1.3, 0.7]))
            levels = (1 if bname == "Normal" else 0) + len(word)
            if levels < 2:
                continue
            d = base
            for pos, name in enumerate(word):
                d = D.Transformed(d, _mt_bijection(name, pos, seed))
            tag = f"{bname}>" + ">".join(word)
            tr += 1
            nt += int(levels >= 3)
            try:
                m = d.merge_transforms()
            except Exception as e:
                add(f"raises|{type(e).__name__}", f"{tag}: merge_transforms raised {type(e).__name__}: {str(e)[:160]}")
                continue
            c = cnd if d.cond_shape is not None else None
            if tuple(m.shape) != tuple(d.shape) or m.cond_shape != d.cond_shape:
                add("declared-shape", f"{tag}: merge_transforms changed (shape, cond_shape) from {(d.shape, d.cond_shape)} to {(m.shape, m.cond_shape)}")
                continue
            if isinstance(m.base_dist, D.AbstractTransformed):
                add("not-flat", f"{tag}: the merged distribution's base is still an AbstractTransformed")
            members = list(m.bijection.bijections) if isinstance(m.bijection, B.Chain) else [m.bijection]
            composite = any(x in MT_COMPOSITE for x in word)
            # Chain(word).merge_chains() on its own: same function, no nested Chain left
            if len(word) >= 2:
                ch = B.Chain([_mt_bijection(name, pos, seed) for pos, name in enumerate(word)])
                mc = ch.merge_chains()
                cc = cnd if ch.cond_shape is not None else None
                tr += 1
                y0, l0 = ch.transform_and_log_det(X[0], cc)
                y1, l1 = mc.transform_and_log_det(X[0], cc)
                x1 = mc.inverse(y0, cc)
                if mc.cond_shape != ch.cond_shape or not (np.allclose(y0, y1, rtol=1e-9, atol=1e-12) and np.allclose(l0, l1, rtol=1e-9, atol=1e-12) and np.allclose(x1, X[0], rtol=1e-7, atol=1e-9)):
                    add("merge_chains", f"Chain({', '.join(word)}).merge_chains() changed the function: transform {np.asarray(y0).tolist()} -> {np.asarray(y1).tolist()}")
                if any(isinstance(b_, B.Chain) for b_ in mc.bijections):
                    add("merge_chains-not-flat", f"Chain({', '.join(word)}).merge_chains() left a nested Chain")
            if (not composite and len(members) != levels) or any(isinstance(b_, B.Chain) for b_ in members):
                add("levels", f"{tag}: {levels} nested levels were merged into a chain of {len(members)} bijections ({[type(b_).__name__ for b_ in members]})")
            lp0, lp1 = np.asarray(d.log_prob(X, c), float), np.asarray(m.log_prob(X, c), float)
            s0, s1 = np.asarray(d.sample(key, (3,), c), float), np.asarray(m.sample(key, (3,), c), float)
            digest.update(np.ascontiguousarray(np.round(lp0, 9)).tobytes())
            if not np.allclose(lp0, lp1, rtol=1e-9, atol=1e-12):
                add("log_prob", f"{tag}: log_prob changed under merge_transforms: {lp0.tolist()} -> {lp1.tolist()}")
            if not np.allclose(s0, s1, rtol=1e-9, atol=1e-12):
                add("sample", f"{tag}: samples for the same key changed under merge_transforms: {s0[0].tolist()} -> {s1[0].tolist()}")
            if sample is None:
                sample = {"nesting": tag, "log_prob": lp0.tolist(), "merged_log_prob": lp1.tolist()}
    if case["mt"] == 0:
        # EmbedCondition "only re-presents the inputs": the RAW condition, whatever its dtype, reaches the embedding network. A lookup
        # table indexed by an integer condition, and integer arithmetic beyond 2**24 (not exact in float32), tell a cast apart.
        table = jnp.asarray([[0.3, -1.2], [2.0, 0.4], [-0.7, 0.9]])
        child = B.AdditiveCondition(_mt_cond_fn, (2,), (2,))
        for nm, net, conds in (("lookup", lambda c: table[c], [0, np.int32(2), jnp.asarray(1, jnp.int32)]),
                               ("int-arithmetic", lambda c: jnp.stack([(c % 7).astype(float), ((c // 3) % 5).astype(float)]), [jnp.asarray(16777217, jnp.int32), 33554435])):
            e = B.EmbedCondition(child, net, ())
            wrapped = [("EmbedCondition", e), ("Invert(EmbedCondition)", B.Invert(e)), ("Chain(EmbedCondition, Affine)", B.Chain([e, _mt_bijection("Affine", 0, seed)]))]
            for c_ in conds:
                for wn, wb in wrapped:
                    tr += 1
                    try:
                        got = wb.transform(X[0], c_)
                        inner = child.transform(X[0], net(jnp.asarray(c_))) if wn != "Invert(EmbedCondition)" else child.inverse(X[0], net(jnp.asarray(c_)))
                        want = inner if wn != "Chain(EmbedCondition, Affine)" else _mt_bijection("Affine", 0, seed).transform(inner)
                    except Exception as ex:
                        add(f"embed-int-condition|{nm}|raises", f"{wn} with a {nm} embedding network and the integer condition {c_!r}: {type(ex).__name__}: {str(ex)[:120]}")
                        continue
                    if not np.allclose(np.asarray(got), np.asarray(want), rtol=1e-9, atol=1e-12):
                        add(f"embed-int-condition|{nm}|value", f"{wn} with a {nm} embedding network and the integer condition {c_!r}: {np.asarray(got).tolist()} instead of child(x, net(condition)) = {np.asarray(want).tolist()}")
    for v in viols:
        n = seen[v["sig"].split("||")[1]]
        if n > 1:
            v["msg"] += f"  [{n} nestings]"
    return {"transitions": tr, "traces": tr, "states": tr, "nontrivial": nt, "violations": viols, "outcomes": {"merge_transforms": tr}, "skipped": {},
            "max_ratio": 0.0, "digest": digest.hexdigest(), "sample": sample}


# ----------------------------------------------------------------------------- reference interpreter
def _vm(fn, X, C):
    import jax

    if C is None:
        return jax.vmap(lambda x: fn(x, None))(X)
    return jax.vmap(fn)(X, C)


def _unstack(tree, i):
    import equinox as eqx
    import jax

    arrs, static = eqx.partition(tree, eqx.is_array)
    return eqx.combine(jax.tree_util.tree_map(lambda a: a[i], arrs), static)


def ref_eval(spec, salt, level, seed, X, C, direction):
    """Batched reference: X (N,*shape), C (N,*cond) or None -> (Y (N,*shape), LD (N,)) as numpy float64."""
    import jax.numpy as jnp

    from mc import grammar as g

    k = spec["k"]
    ii = g.info(spec)
    N = X.shape[0]
    meth = "transform_and_log_det" if direction == "fwd" else "inverse_and_log_det"
    if "c" not in spec:
        leaf = g.build(spec, salt, level, seed)
        y, ld = _vm(getattr(leaf, meth), jnp.asarray(X), None if C is None or ii.cond_shape is None else jnp.asarray(C))
        return np.asarray(y, float), np.asarray(ld, float).reshape(N, -1).sum(1)

    def sub(i, s, x, c, d=direction):
        si = g.info(s)
        return ref_eval(s, g.child_salt(salt, i), level, seed, x, c if si.cond_shape is not None else None, d)

    if k == "Invert":
        return sub(0, spec["c"], X, C, "inv" if direction == "fwd" else "fwd")
    if k == "Chain":
        order = list(enumerate(spec["c"]))
        if direction == "inv":
            order = order[::-1]
        ld = np.zeros(N)
        for i, s in order:
            X, l = sub(i, s, X, C)
            ld = ld + l
        return X, ld
    if k == "Scan":
        scan = g.build(spec, salt, level, seed)
        idxs = list(range(spec["n"]))
        if direction == "inv":
            idxs = idxs[::-1]
        ld = np.zeros(N)
        Cj = None if C is None else jnp.asarray(C)
        for i in idxs:
            layer = _unstack(scan.bijection, i)
            y, l = _vm(getattr(layer, meth), jnp.asarray(X), Cj)
            X, ld = np.asarray(y, float), ld + np.asarray(l, float).reshape(N, -1).sum(1)
        return X, ld
    if k == "Vmap":
        n, ca = spec["n"], spec.get("cond_axis")
        ci = g.info(spec["c"])
        outs, ld = [], np.zeros(N)
        real = g.build(spec, salt, level, seed) if spec["mode"] != "broadcast" else None
        for i in range(n):
            xi = X[:, i]
            if C is None or ci.cond_shape is None:
                cc = None
            elif ca is None:
                cc = C
            else:
                full_rank = len(ci.cond_shape) + 1
                pos = ca if ca >= 0 else ca + full_rank
                cc = np.take(C, i, axis=pos + 1)
            if spec["mode"] == "broadcast":
                y, l = sub(0, spec["c"], xi, cc)
            elif spec["mode"] == "mapped":
                child = _unstack(real.bijection, i)
                y, l = _vm(getattr(child, meth), jnp.asarray(xi), None if cc is None else jnp.asarray(cc))
                y, l = np.asarray(y, float), np.asarray(l, float).reshape(N, -1).sum(1)
            elif spec["mode"] == "axis1":  # parameters mapped along axis 1: slice i uses loc[:, i], scale[:, i]
                from flowjax.wrappers import unwrap

                a = unwrap(real.bijection)
                loc_i, sc_i = np.asarray(a.loc, float)[:, i], np.asarray(a.scale, float)[:, i]
                if direction == "fwd":
                    y, l = xi * sc_i + loc_i, np.full(N, np.log(np.abs(sc_i)).sum())
                else:
                    y, l = (xi - loc_i) / sc_i, np.full(N, -np.log(np.abs(sc_i)).sum())
            else:  # mixed: element-wise loc, global scale (documented example)
                from flowjax.wrappers import unwrap

                a = unwrap(real.bijection)
                loc_i, sc = float(a.loc[i]), float(a.scale)
                if direction == "fwd":
                    y, l = xi * sc + loc_i, np.full(N, np.log(abs(sc)))
                else:
                    y, l = (xi - loc_i) / sc, np.full(N, -np.log(abs(sc)))
            outs.append(y)
            ld = ld + l
        return np.stack(outs, axis=1), ld
    if k == "Concatenate":
        ax = spec["axis"]
        infos = [g.info(s) for s in spec["c"]]
        r = len(infos[0].shape)
        axn = ax if ax >= 0 else ax + r
        sizes = [ci.shape[axn] for ci in infos]
        parts = np.split(X, np.cumsum(sizes)[:-1], axis=axn + 1)
        outs, ld = [], np.zeros(N)
        for i, (s, p) in enumerate(zip(spec["c"], parts)):
            y, l = sub(i, s, p, C)
            outs.append(y)
            ld = ld + l
        return np.concatenate(outs, axis=axn + 1), ld
    if k == "Stack":
        ax = spec["axis"]
        r = len(g.info(spec["c"][0]).shape)
        axn = ax if ax >= 0 else ax + r + 1
        outs, ld = [], np.zeros(N)
        for i, s in enumerate(spec["c"]):
            y, l = sub(i, s, np.take(X, i, axis=axn + 1), C)
            outs.append(y)
            ld = ld + l
        return np.stack(outs, axis=axn + 1), ld
    if k == "Partial":
        idx = g.make_index(spec["idx"])
        full = (slice(None),) + (idx if isinstance(idx, tuple) else (idx,))
        y, ld = sub(0, spec["c"], X[full], C)
        out = X.copy()
        out[full] = y
        return out, ld
    if k == "Reshape":
        ci = g.info(spec["c"])
        cc = None if C is None or ci.cond_shape is None else C.reshape((N, *ci.cond_shape))
        y, ld = sub(0, spec["c"], X.reshape((N, *ci.shape)), cc)
        return y.reshape((N, *ii.shape)), ld
    if k == "Embed":
        import jax

        ci = g.info(spec["c"])
        sf = jnp.asarray(salt, float) + 0.37 * seed
        net = g._cond_map(ci.cond_shape, g.T(spec["raw"]), sf + 5)
        cc = np.asarray(jax.vmap(net)(jnp.asarray(C)), float)
        return sub(0, spec["c"], X, cc)
    raise KeyError(k)


def _interesting(spec):
    if spec["k"] in ("Stack", "Concatenate"):
        return spec["axis"] != 0 or spec["c"][0] != spec["c"][1]
    if spec["k"] == "Chain":
        return len({str(c) for c in spec["c"]}) > 1
    return True


def run_case(case):
    import jax.numpy as jnp

    from mc import battery as bt
    from mc import grammar as g

    if "mt" in case:
        return _run_merge_transforms(case)
    dtype = np.float64
    spec, tier, seed = case["spec"], case["tier"], case["seed"]
    ii = g.info(spec)
    cls = g._cls(spec)
    opt = f"axis={spec.get('axis')}" if "axis" in spec else (f"cond_axis={spec.get('cond_axis')},mode={spec.get('mode')}" if spec["k"] == "Vmap" else (spec.get("idx", {}).get("t", "") if spec["k"] == "Partial" else ""))
    levels = [1] if tier == "quick" else [0, 1, 2]
    viols, outcomes, skipped = [], {}, {}
    transitions = nontrivial = 0
    digest = hashlib.sha1()
    sample = None
    max_ratio = 0.0
    B_ = bt.bundles()

    def add(tail, msg, detail=None):
        viols.append({"sig": f"C08|{cls}|{opt}|{tail}", "msg": msg, "detail": detail or {}})

    for level in levels:
        try:
            b = g.build(spec, 0, level, seed)
        except Exception as e:
            add(f"construct|{type(e).__name__}", f"well-typed {g.canon(spec)} failed to construct: {type(e).__name__}: {str(e)[:200]}")
            continue
        transitions += 1
        if tuple(b.shape) != ii.shape or (None if b.cond_shape is None else tuple(b.cond_shape)) != ii.cond_shape:
            add("declared-shape", f"{g.canon(spec)} declares shape={b.shape} cond_shape={b.cond_shape}; the definition "
                                  f"(NumPy semantics) gives shape={ii.shape} cond_shape={ii.cond_shape}",
                {"declared": [list(b.shape), None if b.cond_shape is None else list(b.cond_shape)],
                 "expected": [list(ii.shape), None if ii.cond_shape is None else list(ii.cond_shape)]})
            continue
        consts = bt.boundary_constants(b)
        for direction, avail, codes in (("fwd", ii.fwd, ii.dom), ("inv", ii.inv, ii.cod)):
            if not avail:
                continue
            if np.any(codes == "X"):
                skipped["domain-unknown"] = skipped.get("domain-unknown", 0) + 1
                continue
            X = bt.input_batch(codes, consts, dtype, max_points=64)
            sel = sorted(set(np.linspace(0, X.shape[0] - 1, 24).round().astype(int).tolist()))
            X = X[sel]
            for ci_, c in enumerate(bt.conditions(ii.cond_shape, dtype, 3)[1:] if ii.cond_shape is not None else [None]):
                N = X.shape[0]
                try:
                    y, y2, ld, _ = bt.run_padded(B_[direction], b, X, c)
                except Exception as e:
                    add(f"{direction}|raises|{type(e).__name__}", f"{cls} [{opt}] level {level}: real {direction} raised {type(e).__name__}: {str(e)[:300]}")
                    continue
                C = None if c is None else np.broadcast_to(c, (N, *c.shape)).copy()
                Yr, LDr = ref_eval(spec, 0, level, seed, X.astype(float), C, direction)
                transitions += N
                nontrivial += N if _interesting(spec) else 0
                if np.asarray(y).shape != (N, *ii.shape) or np.asarray(ld).shape != (N,):
                    add(f"{direction}|returned-shape", f"{cls} [{opt}]: returned shapes {np.asarray(y).shape[1:]} / log-det {np.asarray(ld).shape[1:]}, declared {ii.shape}")
                    continue
                fin = np.isfinite(Yr.reshape(N, -1)).all(1) & np.isfinite(LDr)
                scale = 1 + np.abs(Yr.reshape(N, -1)).max(1, initial=0)
                e1 = np.abs(np.asarray(y, float) - Yr).reshape(N, -1).max(1, initial=0) / scale
                e2 = np.abs(np.asarray(y2, float) - Yr).reshape(N, -1).max(1, initial=0) / scale
                e3 = np.abs(np.asarray(ld, float) - LDr) / (1 + np.abs(LDr))
                digest.update(np.ascontiguousarray(np.nan_to_num(np.asarray(y, float))).tobytes())
                for nm, e in (("point", e1), ("point(and_log_det)", e2), ("logdet", e3)):
                    bad = fin & ~(e <= RTOL)
                    if fin.any():
                        max_ratio = max(max_ratio, float(np.max(np.where(fin & ~bad, e, 0))) / RTOL)
                    if bad.any():
                        i = int(np.argmax(bad))
                        add(f"{direction}|{nm}", f"{cls} [{opt}] level {level}: {direction} {nm} at x={X[i].tolist()} cond#{ci_}: real "
                                               f"{(np.asarray(ld)[i] if nm == 'logdet' else np.asarray(y if nm == 'point' else y2)[i]).tolist()} "
                                               f"vs definition {(LDr[i] if nm == 'logdet' else Yr[i]).tolist()} ({int(bad.sum())}/{N} inputs)",
                            {"level": level, "x": X[i].tolist()})
                o = f"{spec['k']}:{direction}"
                outcomes[o] = outcomes.get(o, 0) + 1
                if sample is None:
                    sample = {"expr": cls, "opt": opt, "direction": direction, "x": X[0].tolist(), "real": np.asarray(y)[0].tolist(),
                              "definition": Yr[0].tolist()}
        # other input dtypes (ArrayLike: "python built in numeric types (float, int)", integer arrays, float32 / float16 arrays while the
        # parameters are float64): same function as for the same values given as float64 - a combinator must not truncate results
        # into the input's dtype or refuse it. Values are small multiples of 1/2, exact in every dtype tried.
        if level == levels[-1] and (tier != "quick" or ii.depth <= 1):  # quick: depth-1 trees (every combinator kind and option); thorough: all
            for direction, avail, codes in (("fwd", ii.fwd, ii.dom), ("inv", ii.inv, ii.cod)):
                if not avail or not np.all(codes == "R"):
                    continue
                n_el = int(np.prod(ii.shape)) if ii.shape else 1
                Xb = np.stack([((np.arange(n_el) * 3 + 1) % 5 - 2).reshape(ii.shape), ((np.arange(n_el) * 2) % 7 - 3).reshape(ii.shape)]).astype(np.float64)
                c = bt.conditions(ii.cond_shape, dtype, 2)[-1] if ii.cond_shape is not None else None
                for tname, tdt, vals in (("int", np.int32, Xb), ("float32", np.float32, Xb / 2), ("float16", np.float16, Xb / 2)):
                    Xi = vals.astype(tdt)
                    try:
                        yf, yf2, ldf, _ = bt.run_padded(B_[direction], b, vals, c)
                    except Exception:
                        continue  # judged by the main loop
                    transitions += 2
                    try:
                        yi, yi2, ldi, _ = bt.run_padded(B_[direction], b, Xi, c)
                    except Exception as e:
                        add(f"{direction}|{tname}-input|raises|{type(e).__name__}", f"{cls} [{opt}]: {direction} of the {tname} array {Xi[0].tolist()} raised {type(e).__name__}: {str(e)[:160]} (the same values as float64 are accepted)")
                        continue
                    fin = np.isfinite(np.asarray(yf, float).reshape(2, -1)).all(1)
                    tol_ = 1e-5 if tname != "float16" else 5e-3  # a result may legitimately be held in the input's precision
                    for nm, a_, b__ in (("point", yi, yf), ("point(and_log_det)", yi2, yf2), ("logdet", ldi, ldf)):
                        a_, b__ = np.asarray(a_, float).reshape(2, -1), np.asarray(b__, float).reshape(2, -1)
                        badi = fin & ~(np.abs(a_ - b__).max(1) <= tol_ * (1 + np.abs(b__).max(1)))
                        if badi.any():
                            i = int(np.argmax(badi))
                            add(f"{direction}|{tname}-input|{nm}", f"{cls} [{opt}]: {direction} {nm} of the {tname} array {Xi[i].tolist()} is {a_[i].tolist()} but {b__[i].tolist()} for the same values as float64")
        # function-preserving rewrites on Chain states
        if spec["k"] == "Chain" and ii.fwd and not np.any(ii.dom == "X"):
            X = bt.input_batch(ii.dom, consts, dtype, max_points=64)[:8]
            c = bt.conditions(ii.cond_shape, dtype, 2)[-1]
            y0, _, ld0, _ = bt.run_padded(B_["fwd"], b, X, c)
            variants = {"merge_chains": b.merge_chains()}
            if len(b) >= 2:
                import flowjax.bijections as FB

                variants["chain[:1]+chain[1:]"] = FB.Chain([b[:1], b[1:]])
                variants["[chain[i] for i]"] = FB.Chain([b[i] for i in range(len(b))])
                variants["iter"] = FB.Chain(list(b))
            members = list(b)
            for i0 in range(len(members)):
                for j0 in range(i0 + 1, len(members) + 1):
                    for sl in (slice(i0, j0), slice(i0 - len(members), j0 if j0 < len(members) else None)):
                        got, want = b[sl], FB.Chain(members[i0:j0])
                        transitions += 1
                        if tuple(got.shape) != tuple(want.shape) or got.cond_shape != want.cond_shape:
                            add("rewrite|slice-declared-shape", f"{cls}: chain[{sl.start}:{sl.stop}] declares shape={got.shape} cond_shape={got.cond_shape}; "
                                                                f"a Chain of those members has shape={want.shape} cond_shape={want.cond_shape}")
                            continue
                        if want.fwd_ok if hasattr(want, "fwd_ok") else True:
                            cc = c if want.cond_shape is not None else None
                            try:
                                ya, _, la, _ = bt.run_padded(B_["fwd"], got, X, cc)
                                yb, _, lb, _ = bt.run_padded(B_["fwd"], want, X, cc)
                                if not (np.allclose(ya, yb, rtol=RTOL, atol=1e-12, equal_nan=True) and np.allclose(la, lb, rtol=RTOL, atol=1e-12, equal_nan=True)):
                                    add("rewrite|slice-function", f"{cls}: chain[{sl.start}:{sl.stop}] is not the composition of those members")
                            except NotImplementedError:
                                pass
            for nm, v in variants.items():
                transitions += X.shape[0]
                y1, _, ld1, _ = bt.run_padded(B_["fwd"], v, X, c)
                if not (np.allclose(y0, y1, rtol=RTOL, atol=1e-12, equal_nan=True) and np.allclose(ld0, ld1, rtol=RTOL, atol=1e-12, equal_nan=True)):
                    add(f"rewrite|{nm}", f"{cls}: {nm} changed the function: {np.asarray(y0)[0].tolist()} -> {np.asarray(y1)[0].tolist()}")
                if nm == "merge_chains" and any(type(x).__name__ == "Chain" for x in v.bijections):
                    add("rewrite|merge_chains-not-flat", f"{cls}: merge_chains left a nested Chain")
    return {"transitions": transitions, "traces": transitions, "states": 1, "nontrivial": nontrivial, "violations": viols,
            "outcomes": outcomes, "skipped": skipped, "max_ratio": max_ratio, "digest": digest.hexdigest(), "sample": sample}
