"""C06 - batched calls equal element-wise unbatched calls with NumPy broadcasting.

Distributions under test depend injectively on every entry of x AND of the condition (Normal base with
distinct loc/scale per entry composed with an AdditiveCondition with distinct weights; a conditional coupling
flow). Enumerated: event shape x condition shape (rank 0-2, incl. scalar/scalar) x every broadcasting pair of
leading batch shapes on x and condition x sample_shape."""
import hashlib
import itertools
from math import prod

import numpy as np

PROPERTY = "C06"
HORIZON_S = {"quick": 900.0, "thorough": 1800.0}
RULE = (
    "state = (distribution, event shape, condition shape); transition = one batched call (log_prob / sample / "
    "sample_and_log_prob) with one (x batch shape, condition batch shape, sample_shape), judged element by element "
    "against unbatched calls; non-trivial = at least one side has a batch axis"
)
ASSUMPTIONS = ["axis sizes >= 1 (zero-size batches are outside the property)", "batched vs unbatched agree to 1e-10 relative (float64)"]
EVENTS = [(), (2,), (2, 3)]
CONDS = [None, (), (2,), (2, 3)]
BATCH = [(), (1,), (3,), (2, 1), (1, 3), (2, 3)]
SAMPLE = [(), (1,), (2,), (2, 3)]


def bounds(tier):
    return {"event_shapes": EVENTS, "cond_shapes": CONDS, "batch_shapes": BATCH, "sample_shapes": SAMPLE,
            "distributions": ["Transformed(Normal(distinct loc/scale), AdditiveCondition(distinct weights))", "conditional coupling flow", "LogNormal (restricted support: batches mix in- and out-of-support points)"],
            "exhaustive_within_bounds": True}


def enumerate_cases(tier, seed):
    cases = []
    for e in EVENTS:
        for c in CONDS:
            cases.append({"id": f"affine|event={e}|cond={c}", "kind": "affine", "event": list(e), "cond": None if c is None else list(c),
                          "x64": True, "seed": seed})
    for e in [(), (2,)]:
        # restricted support: batches mix in-support and out-of-support (NaN -> -inf) elements
        cases.append({"id": f"lognormal|event={e}", "kind": "lognormal", "event": list(e), "cond": None, "x64": True, "seed": seed})
    cases.append({"id": "cond-mixture|event=(2,)|cond=(2,)", "kind": "condmix", "event": [2], "cond": [2], "x64": True, "seed": seed})
    for dim in (2, 3):
        for c in (None, (2,)):
            cases.append({"id": f"coupling|dim={dim}|cond={c}", "kind": "coupling", "event": [dim], "cond": None if c is None else list(c),
                          "x64": True, "seed": seed})
    return cases


def _pat(n, salt):
    i = np.arange(n)
    return np.sin(1.7 * i + 0.9 * salt + 0.3) + 0.31 * np.cos(2.9 * i + salt)


def build(case):
    import jax
    import jax.numpy as jnp

    import flowjax.bijections as B
    import flowjax.distributions as D
    from flowjax import flows
    from mc.grammar import _cond_map

    e = tuple(case["event"])
    c = None if case["cond"] is None else tuple(case["cond"])
    n = max(1, prod(e))
    if case["kind"] == "affine":
        loc = jnp.asarray((1.3 * _pat(n, 1)).reshape(e))
        scale = jnp.asarray((0.5 + 0.35 * np.arange(n)).reshape(e))
        base = D.Normal(loc, scale)
        if c is None:
            return base, loc, scale, None
        net = _cond_map(e, c, 2.0)
        return D.Transformed(base, B.AdditiveCondition(net, e, c)), loc, scale, net
    if case["kind"] == "condmix":
        import equinox as eqx

        def comp(shift):
            return D.Transformed(D.Normal(jnp.asarray([0.3, -0.2]) + shift, jnp.asarray([0.7, 1.1])), B.AdditiveCondition(_cond_map(e, c, 2.0), e, c))

        return D.VmapMixture(eqx.filter_vmap(comp)(jnp.asarray([-2.0, 0.0, 3.0])), jnp.asarray([0.2, 0.5, 0.3])), None, None, None
    if case["kind"] == "condmix":
        import equinox as eqx

        def comp(shift):
            return D.Transformed(D.Normal(jnp.asarray([0.3, -0.2]) + shift, jnp.asarray([0.7, 1.1])), B.AdditiveCondition(_cond_map(e, c, 2.0), e, c))

        return D.VmapMixture(eqx.filter_vmap(comp)(jnp.asarray([-2.0, 0.0, 3.0])), jnp.asarray([0.2, 0.5, 0.3])), None, None, None
    if case["kind"] == "lognormal":
        loc = jnp.asarray((0.3 * _pat(n, 1)).reshape(e))
        scale = jnp.asarray((0.5 + 0.35 * np.arange(n)).reshape(e))
        return D.LogNormal(loc, scale), None, None, None
    d = flows.coupling_flow(jax.random.PRNGKey(case["seed"] + 5), base_dist=D.StandardNormal(e), cond_dim=None if c is None else c[0],
                            flow_layers=2, nn_width=4)
    from mc.params import perturb

    return perturb(d, 1, case["seed"], scale=0.5), None, None, None


def run_case(case):
    import jax
    import jax.numpy as jnp
    import jax.random as jr

    dist, loc, scale, net = build(case)
    e = tuple(case["event"])
    c = None if case["cond"] is None else tuple(case["cond"])
    viols, seen = [], {}
    tr = nt = 0
    digest = hashlib.sha1()
    sample = None
    key = jr.PRNGKey(77 + case["seed"])

    def add(tail, msg):
        sig = f"C06|{case['kind']}|{tail}"
        seen[sig] = seen.get(sig, 0) + 1
        if seen[sig] <= 2:
            viols.append({"sig": sig, "msg": msg, "detail": {k: v for k, v in case.items() if k != "id"}})

    def xs(bshape, salt):
        n = prod(bshape + e)
        return (1.7 * _pat(max(1, n), salt) + 0.2).reshape(bshape + e)

    def cs(bshape, salt):
        n = prod(bshape + c)
        return (0.9 * _pat(max(1, n), salt + 3) - 0.1).reshape(bshape + c)

    def close(a, b):
        a, b = np.asarray(a, float), np.asarray(b, float)
        with np.errstate(invalid="ignore"):
            return a.shape == b.shape and bool(np.all((np.isfinite(b) & (np.abs(a - b) <= 1e-10 * (1 + np.abs(b)))) | (a == b)))

    unb_lp = jax.jit(lambda x, cc: dist.log_prob(x, cc)) if True else None
    # ---- log_prob: every broadcasting pair
    for bx, bc in itertools.product(BATCH, BATCH if c is not None else [()]):
        try:
            bb = np.broadcast_shapes(bx, bc)
        except ValueError:
            continue
        X = xs(bx, len(bx) + 2 * len(bc))
        C = None if c is None else cs(bc, len(bx) + 5 * len(bc))
        tr += 1
        nt += int(bx != () or bc != ())
        try:
            lp = np.asarray(dist.log_prob(jnp.asarray(X), None if C is None else jnp.asarray(C)), float)
        except Exception as ex:
            add(f"log_prob|raises|{type(ex).__name__}", f"{case['id']}: log_prob with x batch {bx} and condition batch {bc} raised {type(ex).__name__}: {str(ex)[:200]}")
            continue
        digest.update(np.ascontiguousarray(lp).tobytes())
        if lp.shape != tuple(bb):
            add("log_prob|shape", f"{case['id']}: log_prob with x batch {bx}, condition batch {bc} has shape {lp.shape}, NumPy broadcasting gives {tuple(bb)}")
            continue
        Xb = np.broadcast_to(X, bb + e)
        Cb = None if C is None else np.broadcast_to(C, bb + c)
        for idx in np.ndindex(*bb):
            want = float(unb_lp(jnp.asarray(Xb[idx]), None if Cb is None else jnp.asarray(Cb[idx])))
            tr += 1
            if not close(lp[idx], want):
                add("log_prob|element", f"{case['id']}: x batch {bx}, condition batch {bc}: element {idx} is {lp[idx]!r}, unbatched call on that slice gives {want!r}")
                break
        if sample is None and bb:
            sample = {"x_batch": list(bx), "cond_batch": list(bc), "log_prob_shape": list(lp.shape)}
    # ---- sample / sample_and_log_prob
    for ss, bc in itertools.product(SAMPLE, BATCH if c is not None else [()]):
        C = None if c is None else cs(bc, 11 + len(bc))
        Cj = None if C is None else jnp.asarray(C)
        tr += 1
        nt += int(ss != () or bc != ())
        try:
            s = np.asarray(dist.sample(key, ss, Cj), float)
            s2, lp2 = dist.sample_and_log_prob(key, ss, Cj)
            s2, lp2 = np.asarray(s2, float), np.asarray(lp2, float)
        except Exception as ex:
            add(f"sample|raises|{type(ex).__name__}", f"{case['id']}: sample with sample_shape {ss} and condition batch {bc} raised {type(ex).__name__}: {str(ex)[:200]}")
            continue
        want_shape = tuple(ss) + tuple(bc) + e
        if s.shape != want_shape or s2.shape != want_shape or lp2.shape != tuple(ss) + tuple(bc):
            add("sample|shape", f"{case['id']}: sample_shape {ss}, condition batch {bc}: sample {s.shape}, joint sample {s2.shape}, its log_prob {lp2.shape}; expected {want_shape}")
            continue
        if not np.array_equal(s, np.asarray(dist.sample(key, ss, Cj), float)):
            add("sample|same-key", f"{case['id']}: the same key gave a different batched sample")
        if not close(s, s2):
            add("sample|joint-differs", f"{case['id']}: sample and sample_and_log_prob with the same key disagree")
        lead = tuple(ss) + tuple(bc)
        Cb = None if C is None else np.broadcast_to(C, lead + c)
        # pairing: the log-prob returned with element i is log_prob(sample_i, condition_i)
        for idx in np.ndindex(*lead):
            want = float(unb_lp(jnp.asarray(s2[idx]), None if Cb is None else jnp.asarray(Cb[idx])))
            tr += 1
            if not ((np.isfinite(want) and abs(lp2[idx] - want) <= 1e-8 * (1 + abs(want))) or lp2[idx] == want):
                add("sample|pairing", f"{case['id']}: sample_shape {ss}, condition batch {bc}: log-prob returned with element {idx} is {lp2[idx]!r} but log_prob(sample, condition) there is {want!r}")
                break
        # independent randomness: standardised residuals pairwise distinct across batch elements
        if prod(lead) > 1:
            tr += 1
            if case["kind"] == "lognormal":
                z = np.log(s)
            elif case["kind"] == "affine":
                shift = 0.0 if net is None else np.asarray(jax.vmap(net)(jnp.asarray(Cb.reshape((-1,) + c))), float).reshape(lead + e)
                z = (s - np.asarray(loc) - shift) / np.asarray(scale)
            if case["kind"] in ("coupling", "condmix"):
                z = s  # raw samples must already be pairwise distinct
            flat = z.reshape(prod(lead), -1)[:, 0]
            if len(np.unique(np.round(flat, 9))) != len(flat):
                add("sample|repeated-draw", f"{case['id']}: sample_shape {ss}, condition batch {bc}: batch elements share a base draw (standardised residuals {flat.tolist()})")
    return {"transitions": tr, "traces": tr, "states": 1, "nontrivial": nt, "violations": viols,
            "outcomes": {f"{case['kind']}:{'ok' if not viols else 'BAD'}": 1}, "digest": digest.hexdigest(), "sample": sample}
