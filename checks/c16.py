"""C16 - training loops stop and select parameters as documented.

Two exhaustive legs (DESIGN.md C16):
 1. direct: every permutation of 1..m (m = 0..L) x max_patience x return_best x batches/epoch,
    driven through the REAL fit_to_data / fit_to_variational_target by a scripted loss and a
    counting optimiser; oracle = a plain-Python reference of the documented behaviour.
 2. TLA+: models/EarlyStop.tla and models/VarFit.tla are verified by TLC (invariants = the
    property stated over the history); the labelled state graph is dumped and EVERY maximal
    path is replayed against the real loops, comparing the loss history, the number of
    epochs/steps and the returned parameter version with the model's terminal state.
 3. TLA+ with ties: models/EarlyStopTies.tla and models/VarFitTies.tla let losses REPEAT and are
    non-deterministic exactly where the statement is (patience counted from the first or from the
    last epoch attaining the minimum - one reading per run, applied at every epoch of it; any epoch
    attaining the minimum may supply the best parameters). TLC
    verifies the tie-aware invariants; the real loops are run on EVERY loss word over 1..V of
    every length <= L and the observed behaviour must be one of the model's behaviours for that
    word (trace inclusion). One value map sends the largest rank to +inf.
"""
import hashlib
import itertools
import json
import os

PROPERTY = "C16"
HORIZON_S = {"quick": 600.0, "thorough": 3000.0}
RULE = (
    "state = (loop kind, batches per epoch, max_patience, return_best, loss history); transition = one "
    "complete run of the real training loop on one scripted loss ordering; direct leg enumerates every "
    "permutation of 1..m for m<=L, TLA leg every maximal path of the TLC state graph; non-trivial = "
    "history of length >= 2 whose minimum is not at the last position (best != last parameters)"
)
ASSUMPTIONS = [
    "legs 1-2: loss values are distinct; four value maps: well separated (seed-dependent offset and scale), a float64 plateau with values 1e-10 apart, smallest value exactly 0.0, values straddling zero",
    "leg 3 (ties): where the statement is ambiguous about ties every reading is accepted (see models/EarlyStopTies.tla); NaN losses are not losses and are not enumerated; +inf is",
    "scripted loss reads the parameter version t written by a counting optimiser (+1 per update), so the "
    "returned t names the update count of the returned parameters",
    "TLC 1.8.0 is trusted to explore the TLA+ models exhaustively",
]

# kind -> (n rows, val_prop, batch_size, train batches per epoch B, val batches)
DATA_KINDS = {
    "data_B1": (4, 0.5, 2, 1, 1),
    "data_B2": (8, 0.5, 2, 2, 2),
    "data_B3": (8, 0.25, 2, 3, 1),
}
TABLE_LEN = 32


def _L(tier):
    return {"quick": (4, 4), "thorough": (6, 6)}[tier]  # (direct L, TLA L)


def _ties(tier):
    return {"quick": (5, 3), "thorough": (6, 3)}[tier]  # (L epochs/steps, V distinct values) of the tie models


def bounds(tier):
    ld, lt = _L(tier)
    return {
        "direct_leg": f"all permutations of 1..m, m=0..{ld}; max_patience 0..{ld}; return_best T/F; "
        f"fit_to_data with 1,2,3 train batches per epoch (1 or 2 val batches); variational steps=m",
        "tla_leg": f"EarlyStop.tla and VarFit.tla with L={lt}: all reachable states, all maximal paths replayed "
        "for return_best T/F and 1 or 2 train batches per epoch",
        "tla_ties_leg": "EarlyStopTies.tla / VarFitTies.tla with (L, V) = %s: every loss word over 1..V of every length <= L x max_patience "
        "0..L x return_best T/F x 1-2 train batches per epoch x value maps {finite, largest=+inf}; trace inclusion in the model" % (_ties(tier),),
        "exhaustive_within_bounds": True,
    }


def _value_map(seed):
    # seed selects the member of the alphabet family: rank r -> (r + off) * 2**k (exact in float32)
    off = [0, -3, 5, -1, 2][seed % 5]
    k = [0, -2, 1, 3, -1][(seed // 5) % 5]
    return off, 2.0**k


def enumerate_cases(tier, seed):
    from mc.tlc import maximal_paths, run_tlc

    ld, lt = _L(tier)
    cases = []
    for kind in list(DATA_KINDS) + ["var"]:
        for rb in (True, False):
            pats = range(ld + 1) if kind != "var" else [0]
            for pat in pats:
                for m in range(ld + 1):
                    # 0: well separated values; 1: distinct float64 values 1e-10 apart (a plateau); 3: the smallest value is exactly
                    # 0.0 (0, 1, 2, ...); 4: values straddle zero (-1, 0, 1, ...) - a loss of exactly zero is falsy in Python
                    for vm in (0, 1, 3, 4):
                        if vm >= 3 and m == 0:
                            continue
                        cases.append(
                            {
                                "id": f"direct|{kind}|rb={int(rb)}|pat={pat}|m={m}|values={ {0: 'wide', 1: 'tight', 3: 'zero-min', 4: 'straddle-zero'}[vm]}",
                                "leg": "direct", "kind": kind, "rb": rb, "pat": pat, "m": m, "seed": seed, "vm": vm,
                            }
                        )
    # --- TLA leg: verified model -> all maximal paths
    nodes, edges, st1 = run_tlc(
        "EarlyStop", {"L": lt}, ["AtMostMaxEpochs", "StopsExactlyWhenDocumented", "BestIsArgMin"], "es"
    )
    groups = {}
    for p in maximal_paths(nodes, edges):
        term = nodes[p[-1]]
        key = (term["maxEpochs"], term["patience"])
        groups.setdefault(key, []).append(
            {"vals": term["vals"], "stopped": term["stopped"], "version": term["version"], "best": term["best"],
             "trace": [[nodes[n]["version"], nodes[n]["best"], nodes[n]["stopped"]] for n in p]}
        )
    for (me, pat), paths in sorted(groups.items()):
        paths.sort(key=lambda d: d["vals"])
        for kind in ("data_B1", "data_B2"):
            cases.append(
                {"id": f"tla|{kind}|maxEpochs={me}|pat={pat}", "leg": "tla", "kind": kind, "me": me, "pat": pat,
                 "paths": paths, "seed": seed, "L": lt}
            )
    nodes2, edges2, st2 = run_tlc("VarFit", {"L": lt}, ["ExactlyOneLossPerStep", "BestIsWhereMinWasEvaluated"], "vf")
    groups = {}
    for p in maximal_paths(nodes2, edges2):
        term = nodes2[p[-1]]
        groups.setdefault(term["steps"], []).append(
            {"vals": term["losses"], "version": term["version"], "best": term["best"]}
        )
    for steps, paths in sorted(groups.items()):
        paths.sort(key=lambda d: d["vals"])
        cases.append({"id": f"tla|var|steps={steps}", "leg": "tla", "kind": "var", "me": steps, "pat": 0,
                      "paths": paths, "seed": seed, "L": lt})
    # --- TLA leg with ties: acceptance sets per configuration; the words are enumerated in the worker
    lt_, v_ = _ties(tier)
    nodes3, edges3, st3 = run_tlc("EarlyStopTies", {"L": lt_, "V": v_},
                                  ["AtMostMaxEpochs", "StopsExactlyWhenDocumented", "BestAttainsMin"], "est")
    groups = {}
    for p in maximal_paths(nodes3, edges3):
        term = nodes3[p[-1]]
        groups.setdefault((term["maxEpochs"], term["patience"]), []).append(
            {"vals": term["vals"], "stopped": term["stopped"], "version": term["version"], "best": term["best"], "reading": term["reading"]})
    for (me, pat), paths in sorted(groups.items()):
        paths.sort(key=lambda d: (d["vals"], d["stopped"], d["best"], d["reading"]))
        for kind in ("data_B1", "data_B2"):
            for vm in (0, 2):
                cases.append({"id": f"ties|{kind}|maxEpochs={me}|pat={pat}|values={'finite' if vm == 0 else 'top=inf'}", "leg": "ties", "kind": kind,
                              "me": me, "pat": pat, "paths": paths, "seed": seed, "L": lt_, "V": v_, "vm": vm})
    nodes4, edges4, st4 = run_tlc("VarFitTies", {"L": lt_, "V": v_}, ["ExactlyOneLossPerStep", "BestAttainsMin"], "vft")
    groups = {}
    for p in maximal_paths(nodes4, edges4):
        term = nodes4[p[-1]]
        groups.setdefault(term["steps"], []).append({"vals": term["losses"], "stopped": False, "version": term["version"], "best": term["best"]})
    for steps, paths in sorted(groups.items()):
        paths.sort(key=lambda d: (d["vals"], d["best"]))
        for vm in (0, 2):
            cases.append({"id": f"ties|var|steps={steps}|values={'finite' if vm == 0 else 'top=inf'}", "leg": "ties", "kind": "var", "me": steps, "pat": 0,
                          "paths": paths, "seed": seed, "L": lt_, "V": v_, "vm": vm})
    enumerate_cases.tlc_stats = {"EarlyStop": st1, "VarFit": st2, "EarlyStopTies": st3, "VarFitTies": st4}
    return cases


def finalize(tier, seed, cases, results):
    st = getattr(enumerate_cases, "tlc_stats", {})
    n_paths = sum(len(c["paths"]) for c in cases if c["leg"] == "tla")
    return {"tlc": st, "tla_maximal_paths": n_paths,
            "tla_paths_replayed_on_impl": sum(r.get("counters", {}).get("tla_replays", 0) for r in results),
            "ties_words_run_on_impl": sum(r.get("counters", {}).get("ties_runs", 0) for r in results),
            "ties_model_behaviours_offered": sum(r.get("counters", {}).get("ties_offered", 0) for r in results),
            "ties_model_behaviours_taken_by_impl": sum(r.get("counters", {}).get("ties_taken", 0) for r in results)}


# ----------------------------------------------------------------------------- worker side
_ENV = {}
_ENV_TOP = {}


def _env(seed, vm=0, top=None):
    if _ENV.get("seed") == seed and _ENV.get("vm") == vm and _ENV_TOP.get("top") == top:
        return _ENV
    _ENV_TOP["top"] = top
    import equinox as eqx
    import jax
    import jax.numpy as jnp
    import optax

    off, scale = _value_map(seed)
    if vm == 1:
        # losses that are distinct in float64 but closer than float32 resolution: value = 1 + rank * 1e-10
        off, scale = 1e10, 1e-10
    if vm in (3, 4):
        off, scale = (-1.0 if vm == 3 else -2.0), 1.0

    class ScriptModel(eqx.Module):
        t: jax.Array
        table: jax.Array  # int ranks: not an inexact leaf, hence never trained

    top = _ENV_TOP.get("top") if vm == 2 else None

    def _loss(model):
        idx = jnp.round(model.t).astype(jnp.int32)
        r = model.table[idx]
        v = (r.astype(model.t.dtype) + off) * scale + 0.0 * model.t
        return v if top is None else jnp.where(r == top, jnp.inf, v)

    def data_loss(params, static, x, condition=None, key=None):
        return _loss(eqx.combine(params, static))

    def var_loss(params, static, key):
        return _loss(eqx.combine(params, static))

    def _init(params):
        return ()

    def _update(grads, state, params=None):
        return jax.tree_util.tree_map(lambda g: jnp.ones_like(g), grads), state

    _ENV.update(
        seed=seed, vm=vm, off=off, scale=scale, ScriptModel=ScriptModel, data_loss=data_loss, var_loss=var_loss,
        opt=optax.GradientTransformation(_init, _update), jnp=jnp, jax=jax,
    )
    return _ENV


def _table_data(script, B):
    """Table read by the loss: position e*B (e>=1) holds the scripted validation rank of epoch e."""
    tab = [40 + i for i in range(TABLE_LEN)]
    for e, r in enumerate(script, start=1):
        tab[e * B] = r
    return tab


def run_data(env, kind, script, max_epochs, pat, rb):
    from flowjax.train import fit_to_data

    jnp, jax = env["jnp"], env["jax"]
    n, val_prop, bs, B, _ = DATA_KINDS[kind]
    tab = _table_data(script, B)
    model = env["ScriptModel"](jnp.zeros(()), jnp.asarray(tab, jnp.int32))
    x = jnp.arange(float(n))[:, None]
    dist, losses = fit_to_data(
        jax.random.PRNGKey(0), model, x, loss_fn=env["data_loss"], max_epochs=max_epochs, max_patience=pat,
        batch_size=bs, val_prop=val_prop, optimizer=env["opt"], return_best=rb, show_progress=False,
    )
    return {
        "t": float(dist.t),
        "train": [float(v) for v in losses["train"]],
        "val": [float(v) for v in losses["val"]],
        "table_intact": bool((dist.table == jnp.asarray(tab, jnp.int32)).all()),
    }, tab


def run_var(env, script, steps, rb):
    from flowjax.train import fit_to_variational_target

    jnp, jax = env["jnp"], env["jax"]
    tab = list(script) + [40 + i for i in range(TABLE_LEN - len(script))]
    model = env["ScriptModel"](jnp.zeros(()), jnp.asarray(tab, jnp.int32))
    dist, losses = fit_to_variational_target(
        jax.random.PRNGKey(0), model, env["var_loss"], steps=steps, optimizer=env["opt"], return_best=rb,
        show_progress=False,
    )
    return {"t": float(dist.t), "losses": [float(v) for v in losses]}, tab


def _argmin(v):
    return min(range(len(v)), key=lambda i: v[i])


def ref_data(script, max_epochs, pat, rb, B, tab, val):
    """The documented behaviour, written from the docstring / property statement."""
    vals = []
    for e in range(max_epochs):
        vals.append(script[e])
        if (len(vals) - 1) - _argmin(vals) > pat:  # more than `pat` epochs since the best one
            break
    epochs = len(vals)
    best_epoch = _argmin(vals) + 1 if vals else 0
    train = [sum(val(tab[(e * B) + j]) for j in range(B)) / B for e in range(epochs)]
    return {"t": float((best_epoch if rb else epochs) * B), "train": train, "val": [val(r) for r in vals],
            "table_intact": True}


def ref_var(script, steps, rb, val):
    losses = [val(r) for r in script[:steps]]
    best = _argmin(losses) if losses else 0  # version (update count) at which the min loss was evaluated
    return {"t": float(best if rb else steps), "losses": losses}


def _close(a, b):
    if isinstance(a, list):
        return len(a) == len(b) and all(_close(x, y) for x, y in zip(a, b))
    if isinstance(a, bool) or isinstance(b, bool) or a == b:
        return a == b
    if b in (float("inf"), float("-inf")) or b != b:
        return False  # an infinite expected value is met exactly (handled above) or not at all
    return abs(a - b) <= 1e-6 * (1 + abs(b))


def _cmp(obs, exp):
    return [k for k in exp if not _close(obs.get(k), exp[k])]


def _run_ties(case, env, val):
    """Trace inclusion: the real loop on every word over 1..V; the observation must be one of the model's maximal
    behaviours whose loss history is the observed one."""
    kind, me, pat, V = case["kind"], case["me"], case["pat"], case["V"]
    accept = {}
    for p in case["paths"]:
        accept.setdefault(tuple(p["vals"]), []).append(p)
    viols, outcomes, obs_all, taken = [], {}, [], set()
    runs = nontrivial = 0
    loop = "fit_to_variational_target" if kind == "var" else "fit_to_data"
    for word in itertools.product(range(1, V + 1), repeat=me):
        script = list(word)
        for rb in (True, False):
            runs += 1
            if kind == "var":
                obs, _ = run_var(env, script, me, rb)
                hist, B = obs["losses"], 1
            else:
                B = DATA_KINDS[kind][3]
                obs, _ = run_data(env, kind, script, me, pat, rb)
                hist = obs["val"]
            n = len(hist)
            extra = {"rb": rb, "max_epochs_or_steps": me, "max_patience": pat, "kind": kind}
            obs_all.append([script, obs])
            bad = None
            if n > me or not _close(hist, [val(r) for r in script[:n]]) or (kind != "var" and len(obs["train"]) != n):
                bad = "history"
            else:
                cands = accept.get(tuple(script[:n]), [])
                ok = [c for c in cands if _close(obs["t"], float((c["best"] if rb else c["version"]) * B))]
                if not cands:
                    bad = "stop"  # the model has no maximal behaviour ending after exactly these epochs
                elif not ok:
                    bad = "t"
                else:
                    taken.update((tuple(c["vals"]), c["stopped"], c["best"], c.get("reading")) for c in ok)
            if len(set(script[:n])) < n:
                nontrivial += 1
            tag = f"ties:len={n},t={obs['t']:g}"
            outcomes[tag] = outcomes.get(tag, 0) + 1
            if bad:
                allowed = sorted({(len(c["vals"]), c["best"] if rb else c["version"], {1: "first-min", 2: "last-min"}.get(c.get("reading"), "-"))
                                  for w, cs in accept.items() if list(w) == script[:len(w)] for c in cs})
                viols.append({"sig": f"C16|{loop}|ties|rb={int(rb)}|mismatch={bad}",
                              "msg": f"{loop} {extra} losses with ties script={script}: observed history of length {n}, returned version {obs['t'] / B:g}; "
                                     f"the tie-aware model allows (epochs run, version, reading of 'since the best loss') in {allowed}",
                              "detail": {"script": script, "observed": obs, "allowed": allowed, **extra}})
    digest = hashlib.sha1(json.dumps(obs_all, sort_keys=True).encode()).hexdigest()
    return {"transitions": runs, "traces": runs, "states": 1 + runs, "nontrivial": nontrivial, "violations": viols, "outcomes": outcomes,
            "digest": digest, "counters": {"ties_runs": runs, "ties_offered": len(case["paths"]), "ties_taken": len(taken)},
            "sample": obs_all[-1] if obs_all else None}


def run_case(case):
    env = _env(case["seed"], case.get("vm", 0), case.get("V") if case.get("vm") == 2 else None)
    off, scale = env["off"], env["scale"]
    val = lambda r: (r + off) * scale  # noqa: E731
    if case["leg"] == "ties":
        if case["vm"] == 2:
            top = case["V"]
            val = lambda r: float("inf") if r == top else (r + off) * scale  # noqa: E731
        return _run_ties(case, env, val)
    viols, outcomes, obs_all = [], {}, []
    transitions = nontrivial = replays = 0
    kind = case["kind"]

    def note(script, obs, exp, what, extra):
        nonlocal transitions, nontrivial
        transitions += 1
        hist = obs.get("val", obs.get("losses", []))
        if len(hist) >= 2 and _argmin(hist) != len(hist) - 1:
            nontrivial += 1
        tag = f"len={len(hist)},t={obs['t']:g}"
        outcomes[tag] = outcomes.get(tag, 0) + 1
        obs_all.append([script, obs])
        bad = _cmp(obs, exp)
        if bad:
            fields = ",".join(sorted(bad))
            loop = "fit_to_variational_target" if kind == "var" else "fit_to_data"
            viols.append({
                "sig": f"C16|{loop}|{what}|rb={int(extra['rb'])}|mismatch={fields}",
                "msg": f"{loop} {extra} script={script}: observed {obs} expected {exp}",
                "detail": {"script": script, "observed": obs, "expected": exp, **extra},
            })

    if case["leg"] == "direct":
        m, rb, pat = case["m"], case["rb"], case["pat"]
        for perm in itertools.permutations(range(1, m + 1)):
            script = list(perm)
            if kind == "var":
                obs, _ = run_var(env, script, m, rb)
                exp = ref_var(script, m, rb, val)
                note(script, obs, exp, "direct", {"rb": rb, "steps": m})
            else:
                B = DATA_KINDS[kind][3]
                obs, tab = run_data(env, kind, script, m, pat, rb)
                exp = ref_data(script, m, pat, rb, B, tab, val)
                note(script, obs, exp, "direct", {"rb": rb, "max_epochs": m, "max_patience": pat, "kind": kind})
    else:
        L, me, pat = case["L"], case["me"], case["pat"]
        for path in case["paths"]:
            vals = path["vals"]
            script = list(vals) + [r for r in range(1, L + 1) if r not in vals]  # unused tail, never read if conformant
            for rb in (True, False):
                replays += 1
                if kind == "var":
                    obs, _ = run_var(env, script, me, rb)
                    exp = {"t": float(path["best"] if rb else path["version"]), "losses": [val(r) for r in vals]}
                    note(script, obs, exp, "tla-conformance", {"rb": rb, "steps": me})
                else:
                    B = DATA_KINDS[kind][3]
                    obs, tab = run_data(env, kind, script, me, pat, rb)
                    exp = {"t": float((path["best"] if rb else path["version"]) * B), "val": [val(r) for r in vals]}
                    note(script, obs, exp, "tla-conformance",
                         {"rb": rb, "max_epochs": me, "max_patience": pat, "kind": kind, "model_stopped": path["stopped"]})
    digest = hashlib.sha1(json.dumps(obs_all, sort_keys=True).encode()).hexdigest()
    return {
        "transitions": transitions, "traces": transitions, "states": 1 + transitions, "nontrivial": nontrivial,
        "violations": viols, "outcomes": outcomes, "digest": digest,
        "counters": {"tla_replays": replays},
        "sample": obs_all[-1] if obs_all else None,
    }
