"""C11 - constrained parameters stay valid for every unconstrained value.

Legs:
 * ctor: constructed objects reproduce their constructor arguments (magnitudes 1e-6..1e6, broadcast shapes).
 * raw:  every raw (unconstrained) leaf behind a wrapper is set to EVERY combination of
         V = {-50,-5,-0.5,0,0.5,5,50} (full product for <=5 entries, evaluated with vmap over unwrap) and the
         constrained value is inspected: positivity, normalisation, strictly increasing knots, invertibility.
 * invalid: arguments at the edge of validity are rejected."""
import hashlib
import itertools

import numpy as np

PROPERTY = "C11"
HORIZON_S = {"quick": 600.0, "thorough": 1800.0}
RULE = (
    "state = (object kind, dtype); transition = one raw-parameter assignment of the grid V^k evaluated through "
    "flowjax.wrappers.unwrap (or one constructor round trip / one invalid-argument probe); non-trivial = assignment "
    "with at least one |raw| >= 5"
)
ASSUMPTIONS = [
    "raw box |raw| <= 50 as stated by the property; softmax_adjust >= 1e-3 for knot monotonicity (0 switches the documented floor off)",
    "leaky-relu planar slopes in (0, 3] (the documentation asks for a positive float)",
]
V = [-50.0, -5.0, -0.5, 0.0, 0.5, 5.0, 50.0]
MAGS = [1e-6, 1e-3, 1.0, 1e3, 1e6]


def bounds(tier):
    return {"V": V, "full_product_up_to": 5, "constructor_magnitudes": MAGS, "dtypes": ["float64", "float32"],
            "objects": ["Affine/Scale scale (<=3 entries)", "TriangularAffine dim 2 (diag + off-diagonal)", "StudentT df", "mixture weights (3)",
                        "spline widths/heights (knots 1-3) and derivatives (knots<=3)", "Planar (w,u,b) dim 2 tanh / leaky {0.1,0.5,1,3}",
                        "WeightNormalization 2x2", "flows default transformer scale (min_scale)", "BNAF block diagonal weights"],
            "second_state": "the grid is also applied on top of a perturbed (non-initial) state",
            "exhaustive_within_bounds": True}


KINDS = ["affine", "scale", "triaffine", "studentt", "mixture", "rqs_pos", "rqs_deriv", "planar_tanh", "planar_leaky0.1", "planar_leaky0.5",
         "planar_leaky1.0", "planar_leaky3.0", "weightnorm", "minscale", "bnaf_linear"]


def enumerate_cases(tier, seed):
    cases = []
    for x64 in (True, False):
        for k in KINDS:
            cases.append({"id": f"raw|{k}|x64={int(x64)}", "leg": "raw", "kind": k, "x64": x64, "seed": seed})
        cases.append({"id": f"ctor|x64={int(x64)}", "leg": "ctor", "x64": x64, "seed": seed})
    cases.append({"id": "invalid", "leg": "invalid", "x64": True, "seed": seed})
    return cases


def _grid(k, dtype):
    return np.asarray(list(itertools.product(V, repeat=k)), dtype)


def run_case(case):
    import equinox as eqx
    import jax
    import jax.numpy as jnp
    import jax.random as jr

    import flowjax.bijections as B
    import flowjax.distributions as D
    from flowjax import wrappers
    from flowjax.wrappers import unwrap
    from mc import battery as bt

    dtype = bt.np_dtype()
    dt = "f64" if dtype == np.float64 else "f32"
    eps = float(np.finfo(dtype).eps)
    viols, seen = [], {}
    tr = nt = 0
    digest = hashlib.sha1()
    sample = None

    def add(tail, msg, detail=None):
        sig = f"C11|{case.get('kind', case['leg'])}|{dt}|{tail}"
        seen[sig] = seen.get(sig, 0) + 1
        if seen[sig] <= 1:
            viols.append({"sig": sig, "msg": msg, "detail": detail or {}})

    def sweep(obj, where_raw, k, observe, judge, what, chunk=20000):
        """Set the raw leaf selected by where_raw to every point of V^k (reshaped to the leaf), observe via unwrap."""
        nonlocal tr, nt, sample
        raw0 = where_raw(obj)
        G = _grid(k, dtype)
        f = eqx.filter_jit(lambda o, g: jax.vmap(lambda v: observe(unwrap(eqx.tree_at(where_raw, o, v.reshape(raw0.shape)))))(g))
        for start in range(0, G.shape[0], chunk):
            g = G[start:start + chunk]
            out = jax.tree_util.tree_map(lambda a: np.asarray(a), f(obj, jnp.asarray(g)))
            tr += g.shape[0]
            nt += int((np.abs(g) >= 5).any(1).sum())
            digest.update(np.ascontiguousarray(np.nan_to_num(np.asarray(jax.tree_util.tree_leaves(out)[0], float))).tobytes())
            bad, why = judge(out, g)
            if sample is None:
                sample = {"object": what, "raw": g[-1].tolist(), "constrained": jax.tree_util.tree_map(lambda a: np.asarray(a)[-1].tolist(), out)}
            if bad.any():
                i = int(np.argmax(bad))
                gb = g[bad]
                if what.startswith("Planar"):
                    wu_raw = gb[:, 0] * gb[:, 2] + gb[:, 1] * gb[:, 3]
                    where_ = "only-where-raw-w.u-very-negative" if np.all(wu_raw <= (-30 if dtype == np.float64 else -12)) else ("only-at-w=0" if np.all((gb[:, 0] == 0) & (gb[:, 1] == 0)) else "elsewhere")
                else:
                    where_ = "only-with-a-raw-entry=-50" if np.all((gb == -50).any(1)) else "elsewhere"
                why = f"{why}|{where_}"
                add(why, f"{what}: raw = {g[i].tolist()} -> constrained {jax.tree_util.tree_map(lambda a: np.asarray(a)[i].tolist(), out)} violates '{why}' ({int(bad.sum())}/{len(bad)} grid points)",
                    {"raw": g[i].tolist()})

    def pos(out, g):
        a = np.asarray(out).reshape(len(g), -1)
        return ~((a > 0) & np.isfinite(a)).all(1), "strictly positive and finite"

    leg = case["leg"]
    if leg == "raw":
        kind = case["kind"]
        from mc.params import perturb

        for state in (0, 1):
            def st(o):
                return perturb(o, state, case["seed"]) if state else o

            if kind == "affine":
                for n in (1, 3):
                    sweep(st(B.Affine(jnp.zeros(n), jnp.ones(n))), lambda o: o.scale.arr, n, lambda u: u.scale, pos, f"Affine({n}).scale [state {state}]")
            elif kind == "scale":
                sweep(st(B.Scale(jnp.ones(2))), lambda o: o.scale.arr, 2, lambda u: u.scale, pos, f"Scale(2).scale [state {state}]")
            elif kind == "triaffine":
                o = st(B.TriangularAffine(jnp.zeros(2), jnp.asarray([[1.0, 0.0], [0.5, 2.0]])))
                sweep(o, lambda o: o.triangular.kwargs["diag"].arr, 2, lambda u: jnp.diag(u.triangular), pos, f"TriangularAffine diag [state {state}]")

                def tri_ok(out, g):
                    a = np.asarray(out)
                    return ~((a[:, 0, 1] == 0) & (np.diagonal(a, axis1=1, axis2=2) > 0).all(1)), "requested triangle with positive diagonal"

                sweep(o, lambda o: o.triangular.kwargs["arr"], 4, lambda u: u.triangular, tri_ok, f"TriangularAffine arr [state {state}]")
            elif kind == "studentt":
                sweep(st(D.StudentT(jnp.asarray([3.0, 5.0]))), lambda o: o.base_dist.df.arr, 2, lambda u: u.base_dist.df, pos, f"StudentT.df [state {state}]")
            elif kind == "mixture":
                o = st(D.VmapMixture(eqx.filter_vmap(D.Normal)(jnp.zeros(3), jnp.ones(3)), jnp.ones(3)))

                def norm_ok(out, g):
                    w = np.exp(np.asarray(out, float))
                    return ~(np.abs(w.sum(1) - 1) <= 16 * eps) | ~np.isfinite(np.asarray(out)).all(1), "mixture weights normalised"

                sweep(o, lambda o: o.log_normalized_weights.args[0], 3, lambda u: u.log_normalized_weights, norm_ok, f"VmapMixture weights [state {state}]")
            elif kind == "rqs_pos":
                for knots in (1, 2, 3):
                    for iv in (2, (-1, 3), (1, 5)):
                        for adj in (1e-2, 1e-3, 1.0, 2.0):  # ">1 promotes more evenly spaced widths" is documented as valid
                            o = st(B.RationalQuadraticSpline(knots=knots, interval=iv, softmax_adjust=adj))
                            lo, hi = (-iv, iv) if not isinstance(iv, tuple) else iv

                            def inc(out, g, lo=lo, hi=hi):
                                a = np.asarray(out, float)
                                ok = (np.diff(a, axis=1) > 0).all(1) & (a[:, 0] == lo) & (a[:, -1] == hi) & np.isfinite(a).all(1)
                                return ~ok, "knots strictly increasing from one end of the interval to the other"

                            sweep(o, lambda o: o.x_pos.args[0], knots, lambda u: u.x_pos, inc, f"RQS(knots={knots}, interval={iv}, adjust={adj}).x_pos [state {state}]")
                            sweep(o, lambda o: o.y_pos.args[0], knots, lambda u: u.y_pos, inc, f"RQS(knots={knots}, interval={iv}, adjust={adj}).y_pos [state {state}]")
            elif kind == "rqs_deriv":
                for knots in (1, 3):
                    for md in (1e-3, 0.3):
                        o = st(B.RationalQuadraticSpline(knots=knots, interval=2, min_derivative=md))

                        def dmin(out, g, md=md):
                            a = np.asarray(out, float)
                            return ~((a >= md * (1 - 4 * eps)) & np.isfinite(a)).all(1), "derivatives >= min_derivative"

                        sweep(o, lambda o: o.derivatives.args[0], knots + 2, lambda u: u.derivatives, dmin, f"RQS(knots={knots}, min_derivative={md}).derivatives [state {state}]")
            elif kind.startswith("planar"):
                slope = None if kind == "planar_tanh" else float(kind.split("leaky")[1])
                o = B.Planar(jr.PRNGKey(0), dim=2, negative_slope=slope)
                if state:
                    continue  # params ARE the raw grid: a second state adds nothing
                zl = jnp.asarray(np.concatenate([-np.logspace(2, -3, 12), [0.0], np.logspace(-3, 2, 12)]), dtype)

                def obs(u):
                    pl = u.get_planar()
                    uh = pl.get_act_scale()
                    wu = pl.weight @ uh
                    if slope is None:
                        dz = 1 + wu * (1 - jnp.tanh(zl) ** 2)
                    else:
                        dz = 1 + wu * jnp.where(zl >= 0, 1.0, slope)
                    return wu, jnp.min(dz), jnp.all(jnp.isfinite(uh))

                def inv_ok(out, g):
                    wu, dmin_, fin = (np.asarray(a) for a in out)
                    wzero = (g[:, 0] == 0) & (g[:, 1] == 0)
                    ok = (wu > -1) & (dmin_ > 0) & fin
                    return ~ok & ~wzero, "w.u-hat > -1 and z -> z + (w.u-hat) act(z) strictly increasing"

                def w0_ok(out, g):
                    wu, dmin_, fin = (np.asarray(a) for a in out)
                    wzero = (g[:, 0] == 0) & (g[:, 1] == 0)
                    return wzero & ~fin.astype(bool), "finite u-hat at w = 0"

                sweep(o, lambda o: o.params, 5, obs, inv_ok, f"Planar(dim=2, negative_slope={slope}) (w1,w2,u1,u2,b)")
                sweep(o, lambda o: o.params, 5, obs, w0_ok, f"Planar(dim=2, negative_slope={slope}) (w1,w2,u1,u2,b)")
            elif kind == "weightnorm":
                W0 = jnp.asarray([[1.0, 2.0], [-0.5, 0.3]])
                o = st(wrappers.WeightNormalization(W0))

                def wn_ok_scale(out, g):
                    w, s = (np.asarray(a, float) for a in out)
                    nrm = np.linalg.norm(w, axis=-1)
                    return ~((s[..., 0] > 0).all(1) & np.isfinite(w).all((1, 2)) & (np.abs(nrm - s[..., 0]) <= 64 * eps * (1 + s[..., 0])).all(1)), "rows have norm = positive scale parameter"

                # observe through the wrapper itself: unwrap(WeightNormalization) is the weight; the scale is read separately
                f = eqx.filter_jit(lambda o, g: jax.vmap(lambda v: (unwrap(eqx.tree_at(lambda o: o.scale.arr, o, v.reshape(2, 1))),
                                                                     unwrap(eqx.tree_at(lambda o: o.scale.arr, o, v.reshape(2, 1)).scale)))(g))
                g = _grid(2, dtype)
                out = jax.tree_util.tree_map(np.asarray, f(o, jnp.asarray(g)))
                tr += len(g)
                bad, why = wn_ok_scale(out, g)
                if bad.any():
                    i = int(np.argmax(bad))
                    add(why, f"WeightNormalization raw scale {g[i].tolist()}: rows {out[0][i].tolist()} scale {out[1][i].tolist()}")
                f2 = eqx.filter_jit(lambda o, g: jax.vmap(lambda v: (unwrap(eqx.tree_at(lambda o: o.weight, o, v.reshape(2, 2))), unwrap(o.scale)))(g))
                g = _grid(4, dtype)
                g = g[(np.abs(g[:, :2]).sum(1) > 0) & (np.abs(g[:, 2:]).sum(1) > 0)]  # a zero row has no direction
                out = jax.tree_util.tree_map(np.asarray, f2(o, jnp.asarray(g)))
                tr += len(g)
                nt += len(g)
                bad, why = wn_ok_scale(out, g)
                if bad.any():
                    i = int(np.argmax(bad))
                    add(why, f"WeightNormalization raw weight {g[i].tolist()}: rows {out[0][i].tolist()} with norms {np.linalg.norm(out[0][i], axis=-1).tolist()} but scale {out[1][i].ravel().tolist()}")
            elif kind == "minscale":
                from flowjax.flows import _affine_with_min_scale

                o = _affine_with_min_scale(1e-2)

                def ms_ok(out, g):
                    a = np.asarray(out, float).reshape(len(g), -1)
                    return ~((a >= 1e-2 * (1 - 4 * eps)) & np.isfinite(a)).all(1), "scale >= min_scale"

                sweep(o, lambda o: o.scale.arr, 1, lambda u: u.scale, ms_ok, "flows' default transformer scale")
                # ... and whatever values ALL the arrays take that the conditioner parameterises / the loops train (the partition the
                # library itself uses): a min_scale offset that is not frozen would be one of them
                params_, static_ = eqx.partition(o, eqx.is_inexact_array, is_leaf=lambda l: isinstance(l, wrappers.NonTrainable))
                leaves_, treedef_ = jax.tree_util.tree_flatten(params_)
                sizes_ = [int(l.size) for l in leaves_]
                k_ = sum(sizes_)
                tr += 1
                if k_ > 5:
                    add("min-scale transformer has more trainable entries than expected", f"flows' default transformer exposes {k_} trainable entries: {[jax.tree_util.keystr(p_) for p_, _ in jax.tree_util.tree_leaves_with_path(params_)]}", {})
                else:
                    G_ = _grid(k_, dtype)

                    def rebuild(v):
                        out_, off_ = [], 0
                        for l_, n_ in zip(leaves_, sizes_):
                            out_.append(v[off_:off_ + n_].reshape(l_.shape).astype(l_.dtype))
                            off_ += n_
                        return unwrap(eqx.combine(jax.tree_util.tree_unflatten(treedef_, out_), static_)).scale

                    sc_ = np.asarray(eqx.filter_jit(lambda g: jax.vmap(rebuild)(g))(jnp.asarray(G_)), float).reshape(len(G_), -1)
                    tr += len(G_)
                    bad_ = ~((sc_ >= 1e-2 * (1 - 4 * eps)) & np.isfinite(sc_)).all(1)
                    if bad_.any():
                        i_ = int(np.argmax(bad_))
                        add("scale >= min_scale for every value of the transformer's trainable arrays", f"flows' default transformer: trainable arrays {[jax.tree_util.keystr(p_) for p_, _ in jax.tree_util.tree_leaves_with_path(params_)]} = {G_[i_].tolist()} -> scale {sc_[i_].tolist()} < min_scale 0.01 ({int(bad_.sum())}/{len(bad_)} grid points)", {"raw": G_[i_].tolist()})
            elif kind == "bnaf_linear":
                from flowjax.bijections.block_autoregressive_network import block_autoregressive_linear

                lin, _ = block_autoregressive_linear(jr.PRNGKey(1), n_blocks=2, block_shape=(1, 1))
                lin = st(lin)

                def bl_ok(out, g):
                    a = np.asarray(out, float)
                    return ~((a[:, 0, 1] == 0) & (a[:, 0, 0] > 0) & (a[:, 1, 1] > 0) & np.isfinite(a).all((1, 2))), "block lower-triangular with strictly positive diagonal blocks"

                def raw_w(o):
                    return o.weight.weight.if_true.arr.if_true

                try:
                    sweep(lin, raw_w, 4, lambda u: u.weight, bl_ok, f"block_autoregressive_linear weight [state {state}]")
                except AttributeError as e:
                    add("harness-path", f"cannot locate the raw weight of block_autoregressive_linear: {e}")
    elif leg == "ctor":
        rt = 64 * eps

        def chk(name, got, want):
            nonlocal tr, nt
            tr += 1
            nt += 1
            got, want = np.asarray(got, float), np.asarray(want, float)
            if got.shape != want.shape or not np.all(np.abs(got - want) <= rt * np.abs(want) + 0 * want):
                add(f"roundtrip|{name}", f"{name}: accessor {got.tolist()} vs constructor argument {want.tolist()}")

        for m in MAGS:
            for shape in ((), (3,), (2, 1)):
                v = (m * (1 + 0.25 * np.arange(max(1, int(np.prod(shape)))))).reshape(shape).astype(dtype)
                if dtype == np.float32 and m in (1e-6,) and False:
                    continue
                vj = jnp.asarray(v)
                chk(f"Affine.scale[{m:g}]", unwrap(B.Affine(jnp.zeros(shape), vj).scale), v)
                chk(f"Scale.scale[{m:g}]", unwrap(B.Scale(vj).scale), v)
                chk(f"Normal.scale[{m:g}]", D.Normal(jnp.zeros(shape), vj).scale, v)
                chk(f"Normal.loc[{m:g}]", D.Normal(vj, jnp.ones(shape)).loc, v)
                chk(f"StudentT.df[{m:g}]", D.StudentT(vj).df, v)
                chk(f"Exponential.rate[{m:g}]", D.Exponential(vj).rate, v)
                u = D.Uniform(-vj, vj * 2)
                chk(f"Uniform.minval[{m:g}]", u.minval, -v)
                chk(f"Uniform.maxval[{m:g}]", u.maxval, 2 * v)
            if True:
                cov = (m * np.asarray([[2.0, 0.6], [0.6, 1.0]])).astype(dtype)
                mvn = D.MultivariateNormal(jnp.zeros(2), jnp.asarray(cov))
                tr += 1
                if not np.allclose(np.asarray(mvn.covariance), cov, rtol=256 * eps):
                    add("roundtrip|MVN.covariance", f"covariance {np.asarray(mvn.covariance).tolist()} vs {cov.tolist()}")
                w = (m * np.asarray([0.2, 0.5, 0.3])).astype(dtype)
                mix = D.VmapMixture(eqx.filter_vmap(D.Normal)(jnp.zeros(3), jnp.ones(3)), jnp.asarray(w))
                tr += 1
                if not np.allclose(np.exp(np.asarray(unwrap(mix).log_normalized_weights, float)), w / w.sum(), rtol=256 * eps):
                    add("roundtrip|mixture-weights", f"weights {w.tolist()} -> {np.exp(np.asarray(unwrap(mix).log_normalized_weights)).tolist()}")
            diag = (m * np.asarray([1.0, 2.5])).astype(dtype)
            ta = B.TriangularAffine(jnp.zeros(2), jnp.asarray(np.diag(diag) + np.asarray([[0, 0], [0.3, 0]], dtype)))
            chk(f"TriangularAffine.diag[{m:g}]", np.diag(np.asarray(unwrap(ta).triangular)), diag)
        sample = {"constructor_roundtrips": tr}
    else:
        tiny = 1e-30

        def must_raise(name, thunk):
            nonlocal tr, nt
            tr += 1
            nt += 1
            try:
                obj = thunk()
                jax.block_until_ready(jax.tree_util.tree_leaves(obj))
            except Exception:
                return
            add(f"accepted|{name}", f"{name} was accepted")

        for bad in (0.0, -tiny, -1.0):
            must_raise(f"Affine(scale={bad})", lambda: B.Affine(0.0, bad))
            must_raise(f"Scale({bad})", lambda: B.Scale(jnp.asarray([1.0, bad])))
            must_raise(f"Normal(scale={bad})", lambda: D.Normal(0.0, bad))
            must_raise(f"StudentT(df={bad})", lambda: D.StudentT(jnp.asarray([2.0, bad])))
            must_raise(f"VmapMixture(weights has {bad})", lambda: D.VmapMixture(eqx.filter_vmap(D.Normal)(jnp.zeros(2), jnp.ones(2)), jnp.asarray([1.0, bad])))
            must_raise(f"TriangularAffine(diag has {bad})", lambda: B.TriangularAffine(jnp.zeros(2), jnp.asarray([[1.0, 0.0], [0.2, bad]])))
            if bad < 0:
                must_raise(f"Exponential(rate={bad})", lambda: D.Exponential(jnp.asarray(bad)))
        for lo, hi in ((0.0, 0.0), (1.0, 0.5), (0.0, -tiny), (2.0, 2.0)):
            must_raise(f"Uniform({lo},{hi})", lambda: D.Uniform(jnp.asarray([lo, 0.0]), jnp.asarray([hi, 1.0])))
        for p in ([0, 0], [0, 2], [1, 2, 3], [-1, 0], [0, 1, 1]):
            must_raise(f"Permute({p})", lambda: B.Permute(jnp.asarray(p)))
        for s in (0.0, -0.1, -1.0):
            must_raise(f"Planar(negative_slope={s})", lambda: B.Planar(jr.PRNGKey(0), dim=2, negative_slope=s).get_planar())
        must_raise("RationalQuadraticSpline(softmax_adjust=-0.1)", lambda: unwrap(B.RationalQuadraticSpline(knots=2, interval=1, softmax_adjust=-0.1)))
        sample = {"invalid_probes": tr}
    return {"transitions": tr, "traces": tr, "states": 1, "nontrivial": nt, "violations": viols,
            "outcomes": {f"{leg}:{'ok' if not viols else 'BAD'}": 1}, "digest": digest.hexdigest(), "sample": sample}
