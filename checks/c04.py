"""C04 - flow densities integrate to one and the sampler draws from them.

Every configuration (5 factories + variants, both orientations, conditional or not, hand-built 1-D transformed
distributions over every scalar leaf and its inverse; parameters perturbed away from the identity; several
conditions) is enumerated. Per configuration, deterministically:
  1. mass:  exp(log_prob) is integrated by trapezoid quadrature on a tail-covering grid at resolutions h and 2h;
  2. sampler: one fixed-key batch from dist.sample is compared with the SAME quadrature (1-D: Kolmogorov distance
     to the numerically integrated cdf; 2-D: chi-square over a cell partition whose probabilities come from the
     density grid), thresholds set for an a-priori false-alarm probability < 1e-9."""
import hashlib

import numpy as np

PROPERTY = "C04"
HORIZON_S = {"quick": 240.0, "thorough": 900.0}
RULE = (
    "state = (architecture, orientation, condition, parameter level); transitions = one mass quadrature and one "
    "sampler goodness-of-fit statistic; non-trivial = the bijection is visibly not the identity (max |log det| on "
    "the grid > 1e-2)"
)
ASSUMPTIONS = [
    "mass: |I_h - 1| <= 5e-3 + 4*res, res = max(|I_h - I_2h|, |I_2h - I_4h|), with res itself <= 3e-3 (else the state is reported unresolved, never passed)",
    "sampler: fixed key from VERIF_SEED; 1-D: N=2e5, DKW bound for alpha=1e-9 plus 2e-3 quadrature slack; 2-D: N=2e5, chi-square over cells with expected count >= 40, threshold chi2.isf(1e-9, dof) + 5 sqrt(dof)",
    "this bounds the discrepancy between sampler and density by the quadrature resolution and the power of N draws; it is not a proof of distributional equality",
]
N1 = 200_000
# a state counts as resolved only if three successive grid resolutions agree to 3e-3: strongly perturbed flows (e.g. a planar
# layer with 1 + w.u-hat = 4e-4, whose inverse stretches by 2300x) produce densities no affordable grid resolves, and their
# successive differences can look deceptively small at 1e-2
RES_MAX = 3e-3
DKW = float(np.sqrt(np.log(2 / 1e-9) / (2 * N1)))


def bounds(tier):
    return {"factories": "8 configs x invert T/F x cond None/2 x 2 conditions", "levels": [1] if tier == "quick" else [1, 2],
            "grid_2d": 501 if tier == "quick" else 1201, "grid_1d": 40001, "one_d": "14 scalar expressions x levels {1,2}", "N": N1,
            "exhaustive_within_bounds": True}


ONE_D = [
    {"k": "Affine", "shape": []}, {"k": "AffineNeg", "shape": []}, {"k": "RQS", "knots": 3, "interval": [-1, 3]}, {"k": "RQS", "knots": 3, "interval": 2},
    {"k": "LeakyTanh", "shape": [], "max_val": 0.5}, {"k": "Invert", "c": {"k": "LeakyTanh", "shape": [], "max_val": 0.5}},
    {"k": "Invert", "c": {"k": "RQS", "knots": 3, "interval": [-1, 3]}}, {"k": "Exp", "shape": []}, {"k": "SoftPlus", "shape": []},
    {"k": "Tanh", "shape": []}, {"k": "Chain", "c": [{"k": "RQS", "knots": 3, "interval": 2}, {"k": "Affine", "shape": []}]},
    {"k": "Chain", "c": [{"k": "Affine", "shape": []}, {"k": "LeakyTanh", "shape": [], "max_val": 3}, {"k": "RQS", "knots": 1, "interval": [1, 5]}]},
    {"k": "Reshape", "c": {"k": "Planar", "dim": 1, "cond": None, "slope": 0.1}, "shape": []},
    {"k": "Reshape", "c": {"k": "BNAF", "dim": 1, "cond": None, "depth": 1, "bd": 2}, "shape": []},
    {"k": "Reshape", "c": {"k": "MAF", "dim": 1, "cond": 2, "tr": "rqs"}, "shape": []},
    # conditional block network with TWO hidden layers, both orientations (2-D versions of these are not resolvable by quadrature)
    {"k": "Reshape", "c": {"k": "BNAF", "dim": 1, "cond": 2, "depth": 2, "bd": 2}, "shape": []},
    {"k": "Invert", "c": {"k": "Reshape", "c": {"k": "BNAF", "dim": 1, "cond": 2, "depth": 2, "bd": 2}, "shape": []}},
]


def enumerate_cases(tier, seed):
    from checks import c01
    from mc import grammar as g

    cases = []
    levels = [1] if tier == "quick" else [1, 2]
    for f in c01.FACTORIES:
        for inv in (True, False):
            for cond in (None, 2):
                for lvl in levels:
                    cases.append({"id": f"factory|{f}|invert={int(inv)}|cond={cond}|level={lvl}", "leg": "2d", "factory": f, "invert": inv,
                                  "cond": cond, "level": lvl, "x64": True, "seed": seed, "tier": tier})
    for s in ONE_D:
        for lvl in (1, 2):
            cases.append({"id": f"1d|{g.canon(s)}|level={lvl}", "leg": "1d", "spec": s, "level": lvl, "x64": True, "seed": seed, "tier": tier})
    cases.sort(key=lambda c: (0 if str(c.get("factory", "")).startswith("bnaf") else 1, c["id"]))
    return cases


def run_case(case):
    import jax
    import jax.numpy as jnp
    import jax.random as jr
    from scipy import stats

    import flowjax.distributions as D
    from checks import c01
    from mc import grammar as g

    seed = case["seed"]
    viols, seen = [], {}
    tr = nt = 0
    sample = None
    skipped = {}
    digest = hashlib.sha1()
    key = jr.PRNGKey(4000 + seed)

    def add(tail, msg):
        sig = f"C04|{tag}|{tail}"
        seen[sig] = seen.get(sig, 0) + 1
        if seen[sig] <= 1:
            viols.append({"sig": sig, "msg": msg, "detail": {k: v for k, v in case.items() if k != "id"}})

    if case["leg"] == "1d":
        spec = case["spec"]
        ii = g.info(spec)
        tag = "1d:" + g._cls(spec)
        b = g.build(spec, 0, case["level"], seed)
        dist = D.Transformed(D.StandardNormal(()), b)
        conds = [None] if ii.cond_shape is None else [jnp.asarray([0.5, -1.0]), jnp.asarray([-2.0, 1.5])]
        for ci, c in enumerate(conds):
            lp = jax.jit(lambda x: dist.log_prob(x, c))
            smp = np.asarray(jax.jit(lambda k: dist.sample(k, (N1,), c))(key), float) if ii.fwd else None
            if smp is not None and not np.isfinite(smp).all():
                add("sample-nonfinite", f"{tag}: non-finite samples")
                continue
            # tail-covering sinh-spaced grid (dense near 0, geometric in the tails): x = sinh(u), dx = cosh(u) du
            L = 50.0 if smp is None else max(50.0, 4.0 * float(np.abs(smp).max()) + 1.0)
            U = float(np.arcsinh(L))
            u = np.linspace(-U, U, 40001)
            xs, jac = np.sinh(u), np.cosh(u)
            dens = np.exp(np.asarray(lp(jnp.asarray(xs)), float))
            dens = np.where(np.isfinite(dens), dens, 0.0)
            I_h = float(np.trapezoid(dens * jac, u))
            I_2h = float(np.trapezoid((dens * jac)[::2], u[::2]))
            I_4h = float(np.trapezoid((dens * jac)[::4], u[::4]))
            tr += 1
            # densities of piecewise maps (leaky-relu planar, spline ends) have jumps: successive differences are erratic,
            # so the resolution term is the LARGER of the two successive differences
            res = max(abs(I_h - I_2h), abs(I_2h - I_4h))
            digest.update(np.ascontiguousarray(dens[::400]).tobytes())
            ld_span = float(np.nanmax(np.abs(np.diff(np.log(np.maximum(dens[dens > 1e-200], 1e-300))))) if (dens > 1e-200).sum() > 2 else 0.0)
            nt += 1
            if res > RES_MAX:
                skipped["unresolved-quadrature"] = skipped.get("unresolved-quadrature", 0) + 1
            elif abs(I_h - 1) > 5e-3 + 4 * res:
                add("mass", f"{tag} level {case['level']} cond#{ci}: integral of exp(log_prob) over [{-L:g},{L:g}] = {I_h:.6f} (resolution term {res:.2g})")
            if smp is not None and res <= RES_MAX:
                dj = dens * jac
                cdf = np.concatenate([[0.0], np.cumsum(0.5 * (dj[1:] + dj[:-1]) * np.diff(u))])
                cdf = cdf / max(cdf[-1], 1e-300) if abs(cdf[-1] - 1) < 5e-3 + 4 * res else cdf
                s_sorted = np.sort(smp)
                F = np.interp(s_sorted, xs, cdf)
                e = np.arange(1, N1 + 1) / N1
                dks = float(max(np.max(np.abs(F - e)), np.max(np.abs(F - (e - 1 / N1)))))
                tr += 1
                if dks > DKW + 2e-3:
                    add("sampler", f"{tag} level {case['level']} cond#{ci}: Kolmogorov distance between {N1} samples (key {4000 + seed}) and the integrated density = {dks:.4f} > {DKW + 2e-3:.4f}")
                if sample is None:
                    sample = {"dist": tag, "mass": I_h, "ks": dks, "interval": [-L, L]}
    else:
        fi = c01.factory_info(case["factory"], case["invert"], case["cond"])
        tag = f"factory:{case['factory']}|invert={int(case['invert'])}|cond={case['cond']}"
        # BNAF's inverted LeakyTanh tails stretch by ~100x per layer: a gentler parameter state keeps the mass on a resolvable grid
        dist = c01.build_factory(case["factory"], case["invert"], case["cond"], seed, case["level"], scale=0.15 if case["factory"].startswith("bnaf") else 0.5, layers=1 if case["factory"].startswith("bnaf") else 2)
        conds = [None] if case["cond"] is None else [jnp.asarray([0.5, -1.0]), jnp.asarray([-2.0, 1.5])]
        G = (501 if case["tier"] == "quick" else 1201)
        if fi.num_inv:
            G = 601 if case["tier"] == "quick" else 901  # one bisection search per grid point
        elif case["factory"].startswith("bnaf"):
            G = 1201 if case["tier"] == "quick" else 2401  # heavy-tailed (inverted LeakyTanh tails stretch ~100x per layer)
        for ci, c in enumerate(conds):
            smp = None
            if fi.fwd:
                Ns = N1 if not fi.num_fwd else 20_000
                smp = np.asarray(jax.jit(lambda k: dist.sample(k, (Ns,), c))(key), float)
                if not np.isfinite(smp).all():
                    add("sample-nonfinite", f"{tag}: non-finite samples")
                    continue
            if not fi.inv:
                skipped["no-log_prob-in-this-orientation"] = skipped.get("no-log_prob-in-this-orientation", 0) + 1
                continue
            L = 50.0 if smp is None else max(8.0, 4.0 * float(np.abs(smp).max()) + 1.0)
            lpf = jax.jit(lambda X: dist.log_prob(X, c))
            U = float(np.arcsinh(L))
            ug = np.linspace(-U, U, G)
            ax, jc = np.sinh(ug), np.cosh(ug)
            XX, YY = np.meshgrid(ax, ax, indexing="ij")
            pts = np.stack([XX.ravel(), YY.ravel()], 1)
            lp = np.concatenate([np.asarray(lpf(jnp.asarray(pts[i:i + 100000])), float) for i in range(0, len(pts), 100000)])
            dens = np.exp(lp).reshape(G, G)
            dens = np.where(np.isfinite(dens), dens, 0.0) * np.outer(jc, jc)  # density w.r.t. (u, v)
            ax = ug  # all quadrature below is done in the (u, v) coordinates; samples are mapped with arcsinh
            I_h = float(np.trapezoid(np.trapezoid(dens, ax, axis=1), ax))
            I_2h = float(np.trapezoid(np.trapezoid(dens[::2, ::2], ax[::2], axis=1), ax[::2]))
            I_4h = float(np.trapezoid(np.trapezoid(dens[::4, ::4], ax[::4], axis=1), ax[::4]))
            tr += 1
            nt += 1
            res = max(abs(I_h - I_2h), abs(I_2h - I_4h))
            digest.update(np.ascontiguousarray(dens[::30, ::30]).tobytes())
            if np.isnan(lp).any():
                add("nan-logprob", f"{tag}: NaN log_prob on the grid")
            if res > RES_MAX:
                skipped["unresolved-quadrature"] = skipped.get("unresolved-quadrature", 0) + 1
                continue
            if abs(I_h - 1) > 5e-3 + 4 * res:
                add("mass", f"{tag} level {case['level']} cond#{ci}: integral of exp(log_prob) over [-{L:.3g},{L:.3g}]^2 (sinh grid) = {I_h:.5f} (resolution term {res:.2g})")
                continue
            if smp is not None:
                smp = np.arcsinh(smp)
                # cells: K x K uniform partition of the central box holding ~98% of the density mass, plus 'outside'
                K = 8
                mx = np.trapezoid(dens, ax, axis=1)
                cx = np.cumsum(mx) / mx.sum()
                lo_i, hi_i = int(np.searchsorted(cx, 0.01)), int(np.searchsorted(cx, 0.99))
                my = np.trapezoid(dens, ax, axis=0)
                cy = np.cumsum(my) / my.sum()
                lo_j, hi_j = int(np.searchsorted(cy, 0.01)), int(np.searchsorted(cy, 0.99))
                # cell edges ARE grid lines, so every cell mass is a trapezoid sum with the same accuracy as the total
                ei = np.unique(np.linspace(max(lo_i - 1, 0), min(hi_i + 1, G - 1), K + 1).round().astype(int))
                ej = np.unique(np.linspace(max(lo_j - 1, 0), min(hi_j + 1, G - 1), K + 1).round().astype(int))
                ex, ey = ax[ei], ax[ej]
                P = np.zeros((len(ei) - 1, len(ej) - 1))
                for a_ in range(len(ei) - 1):
                    for b_ in range(len(ej) - 1):
                        blk = dens[ei[a_]:ei[a_ + 1] + 1, ej[b_]:ej[b_ + 1] + 1]
                        P[a_, b_] = np.trapezoid(np.trapezoid(blk, ax[ej[b_]:ej[b_ + 1] + 1], axis=1), ax[ei[a_]:ei[a_ + 1] + 1])
                p_out = max(1.0 - P.sum() / max(I_h, 1e-12), 0.0)
                P = P / max(I_h, 1e-12)
                sx = np.searchsorted(ex, smp[:, 0], side="right") - 1
                sy = np.searchsorted(ey, smp[:, 1], side="right") - 1
                ins = (smp[:, 0] >= ex[0]) & (smp[:, 0] < ex[-1]) & (smp[:, 1] >= ey[0]) & (smp[:, 1] < ey[-1])
                Cn = np.zeros(P.shape)
                np.add.at(Cn, (sx[ins], sy[ins]), 1)
                n = len(smp)
                exp_ = np.concatenate([P.ravel() * n, [p_out * n]])
                obs = np.concatenate([Cn.ravel(), [n - ins.sum()]])
                big = exp_ >= 40
                exp_m = np.concatenate([exp_[big], [exp_[~big].sum()]])
                obs_m = np.concatenate([obs[big], [obs[~big].sum()]])
                keep = exp_m > 0
                # quadrature error of the cell masses, bounded by the mass-resolution term (relative), as slack
                slack = (2e-3 + 2 * res) * exp_m[keep]
                dev = np.maximum(np.abs(obs_m[keep] - exp_m[keep]) - slack, 0.0)
                chi2 = float(np.sum(dev**2 / exp_m[keep]))
                dof = int(keep.sum() - 1)
                thr = float(stats.chi2.isf(1e-9, dof) + 5 * np.sqrt(dof))
                tr += 1
                if chi2 > thr:
                    worst = int(np.argmax(dev**2 / exp_m[keep]))
                    add("sampler", f"{tag} level {case['level']} cond#{ci}: chi-square of {n} samples (key {4000 + seed}) against the density's cell masses = {chi2:.1f} > {thr:.1f} (dof {dof}); worst cell expected {exp_m[keep][worst]:.0f} observed {obs_m[keep][worst]:.0f}")
                if sample is None:
                    sample = {"dist": tag, "mass": I_h, "chi2": chi2, "threshold": thr, "dof": dof, "box": L}
            elif sample is None:
                sample = {"dist": tag, "mass": I_h, "box": L}
    outc = {f"{case['leg']}:{'ok' if not viols else 'BAD'}": 1}
    if skipped.get("unresolved-quadrature"):
        outc[f"unresolved:{tag}|level={case['level']}"] = skipped["unresolved-quadrature"]
    return {"transitions": tr, "traces": tr, "states": 1, "nontrivial": nt, "violations": viols, "skipped": skipped,
            "outcomes": outc, "digest": digest.hexdigest(), "sample": sample}
