"""Standalone demonstration of finding 14 (C18): a Gumbel mixture with components far apart has a finite log_prob
but NaN gradients (the far component's log-density is -inf with an infinite local derivative: 0 * inf).
Run with PYTHONPATH=<tree>; exit 1 if a gradient of a finite log_prob is not finite."""
import sys

import equinox as eqx
import jax
import jax.numpy as jnp

from flowjax.distributions import Gumbel, VmapMixture

mix = VmapMixture(eqx.filter_vmap(Gumbel)(jnp.array([0.0, 200.0])), jnp.ones(2))
v, g = jax.value_and_grad(mix.log_prob)(jnp.float32(0.0))
params, static = eqx.partition(mix, eqx.is_inexact_array)
gp = jax.grad(lambda p: eqx.combine(p, static).log_prob(jnp.float32(0.0)))(params)
bad = [jax.tree_util.keystr(k) for k, l in jax.tree_util.tree_leaves_with_path(gp) if not bool(jnp.all(jnp.isfinite(l)))]
print("log_prob(0) =", float(v), " d/dx =", float(g), " parameters with non-finite gradient:", bad)
print("single far component log_prob:", float(Gumbel(200.0).log_prob(0.0)))
if not (jnp.isfinite(v) and jnp.isfinite(g) and not bad):
    print("FAIL")
    sys.exit(1)
print("ok")
