"""Standalone demonstration of finding 15 (C13): Partial accepts integer indices outside its shape (jax clamps the gather and
drops the scatter), giving a 'bijection' whose log-det counts a coordinate it never transforms. Exit 1 if accepted."""
import sys

import jax.numpy as jnp

from flowjax.bijections import Affine, Partial

bad = 0
for idx in (5, -4, jnp.array([1, 5])):
    child_shape = () if isinstance(idx, int) else (2,)
    try:
        p = Partial(Affine(jnp.zeros(child_shape), 2 * jnp.ones(child_shape)), idx, (3,))
    except (IndexError, ValueError) as e:
        print("idx", idx, "rejected:", type(e).__name__)
        continue
    y, ld = p.transform_and_log_det(jnp.arange(3.0))
    print("idx", idx, "ACCEPTED: transform([0,1,2]) =", y, "log_det =", float(ld), "(log 2 per claimed coordinate)")
    bad += 1
sys.exit(1 if bad else 0)
