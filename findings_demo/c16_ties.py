"""Standalone demonstration of finding 11 (C16, ties): run against any flowjax tree with PYTHONPATH=<tree>.
Scripted validation losses [1, 2, 1, 3, 2], max_patience=1, max_epochs=5. Reading "epochs since the FIRST epoch
that attained the minimum" must stop after epoch 3 (2 > 1 epochs since epoch 1); reading "since the LAST epoch that
attained it" must never stop (5 epochs). Exit 1 if fit_to_data does neither."""
import sys

import equinox as eqx
import jax
import jax.numpy as jnp
import optax

from flowjax.train import fit_to_data


class M(eqx.Module):
    t: jax.Array


SCRIPT = [1.0, 2.0, 1.0, 3.0, 2.0]
TABLE = jnp.asarray([9.0] + SCRIPT + [9.0] * 8)  # the loss evaluated after k updates is TABLE[k]


def loss(params, static, x, condition=None, key=None):
    m = eqx.combine(params, static)
    return TABLE[jnp.round(m.t).astype(int)] + 0.0 * m.t


plus_one = optax.GradientTransformation(lambda p: (), lambda g, s, params=None: (jax.tree_util.tree_map(jnp.ones_like, g), s))
_, losses = fit_to_data(jax.random.PRNGKey(0), M(jnp.zeros(())), jnp.arange(4.0)[:, None], loss_fn=loss, max_epochs=5, max_patience=1,
                        batch_size=2, val_prop=0.5, optimizer=plus_one, show_progress=False)
n = len(losses["val"])
print("validation losses seen:", [float(v) for v in losses["val"]], "-> epochs run:", n)
if n not in (3, 5):
    print("FAIL: stops after", n, "epochs: too late if patience counts from the first minimum (3), too early if from the last (5)")
    sys.exit(1)
print("ok")
