"""Standalone demonstration of finding 12 (C11/C01): Planar(negative_slope=3.0) - "a positive float" per the docs - is not
invertible for ordinary parameter values: the constraint w.u-hat > -1 only guarantees 1 + s*w.u-hat > 0 for s <= 1.
Run with PYTHONPATH=<tree>. Exit 1 if the layer is not monotone along w or inverse(transform(x)) != x."""
import sys

import equinox as eqx
import jax.numpy as jnp
import jax.random as jr

from flowjax.bijections import Planar

p = Planar(jr.PRNGKey(0), dim=2, negative_slope=3.0)
p = eqx.tree_at(lambda p: p.params, p, jnp.asarray([1.0, 1.0, -1.0, -1.0, 0.0]))  # w=(1,1), u=(-1,-1), b=0: raw w.u = -2
pl = p.get_planar()
wu = float(pl.weight @ pl.get_act_scale())
print("w.u-hat =", wu, " 1 + slope * w.u-hat =", 1 + 3.0 * wu)
bad = 0
for x in (jnp.asarray([-1.0, -0.5]), jnp.asarray([-0.2, -0.1]), jnp.asarray([0.3, 0.4])):
    y = p.transform(x)
    xr = p.inverse(y)
    err = float(jnp.max(jnp.abs(xr - x)))
    print("x =", x, " inverse(transform(x)) =", xr, " error", err)
    bad += err > 1e-4
if 1 + 3.0 * wu <= 0 or bad:
    print("FAIL: the layer is not a bijection")
    sys.exit(1)
print("ok")
