"""Standalone demonstration of finding 13 (C08): integer-typed inputs (accepted ArrayLike) are silently truncated by
Partial / MaskedAutoregressive.inverse and refused by Scan, although the same values as floats work.
Run with PYTHONPATH=<tree>; exit 1 on any disagreement."""
import sys

import equinox as eqx
import jax.numpy as jnp
import jax.random as jr

import flowjax.bijections as B

bad = 0
xi, xf = jnp.arange(3), jnp.arange(3.0)
p = B.Partial(B.Affine(jnp.array(0.5), jnp.array(2.5)), 0, (3,))
print("Partial.transform   int:", p.transform(xi), " float:", p.transform(xf))
bad += not jnp.allclose(p.transform(xi), p.transform(xf))
params = jnp.arange(1.0, 7.0).reshape(3, 2)
scan, chain = B.Scan(eqx.filter_vmap(B.Affine)(params)), B.Chain([B.Affine(q) for q in params])
try:
    print("Scan.transform      int:", scan.transform(jnp.arange(2)), " Chain:", chain.transform(jnp.arange(2)))
    bad += not jnp.allclose(scan.transform(jnp.arange(2)), chain.transform(jnp.arange(2)))
except TypeError as e:
    print("Scan.transform on an integer array raised TypeError (Chain of the same layers gives", chain.transform(jnp.arange(2)), "):", str(e)[:90])
    bad += 1
maf = B.MaskedAutoregressive(jr.PRNGKey(0), transformer=B.Affine(), dim=3, nn_width=4, nn_depth=1)
maf = eqx.tree_at(lambda m: m.masked_autoregressive_mlp.layers[-1].bias, maf, replace_fn=lambda b: b + 0.7)
print("MAF.inverse         int:", maf.inverse(xi), " float:", maf.inverse(xf))
bad += not jnp.allclose(maf.inverse(xi), maf.inverse(xf), atol=1e-5)
if bad:
    print("FAIL:", bad, "disagreement(s) between integer and float inputs")
    sys.exit(1)
print("ok")
