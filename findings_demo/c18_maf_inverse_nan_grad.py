"""Standalone demonstration of finding 8l (C18): MaskedAutoregressive.inverse computes, at every pass, the transformer of ALL
elements from inputs that are not inverted yet and keeps only one of them; the discarded ones can have a zero scale, and
0 * inf makes the gradient NaN although log_prob is finite. Run with PYTHONPATH=<tree>; exit 1 on a NaN gradient."""
import sys

import equinox as eqx
import jax
import jax.numpy as jnp
import jax.random as jr

from flowjax.bijections import Affine, MaskedAutoregressive
from flowjax.distributions import StandardNormal, Transformed

maf = MaskedAutoregressive(jr.PRNGKey(0), transformer=Affine(), dim=3, nn_width=4, nn_depth=0)
W = jnp.asarray([[0.0, 0, 0], [0, 0, 0], [-0.394, 0, 0], [-0.405, 0, 0], [0.537, -0.567, 0], [-0.107, 0.296, 0]])
maf = eqx.tree_at(lambda m: m.masked_autoregressive_mlp.layers[0].weight.if_true, maf, W)
maf = eqx.tree_at(lambda m: m.masked_autoregressive_mlp.layers[0].bias, maf, jnp.asarray([0.266, 0.369, -0.419, -0.08, 0.218, 0.186]))
d = Transformed(StandardNormal((3,)), maf)
x = jnp.full((3,), -1e4)
v, g = jax.value_and_grad(d.log_prob)(x)
print("log_prob =", float(v), " d/dx =", g, " inverse image =", maf.inverse(x))
if bool(jnp.isfinite(v)) and not bool(jnp.all(jnp.isfinite(g))):
    print("FAIL: finite log_prob, NaN gradient")
    sys.exit(1)
print("ok")
