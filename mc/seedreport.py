"""Developer tool: regenerates seeded/README.md from seeded/*/meta.json."""
import glob
import json
import os

ROOT = os.path.dirname(os.path.dirname(os.path.abspath(__file__)))


def main():
    rows = []
    for f in sorted(glob.glob(os.path.join(ROOT, "seeded", "*", "meta.json"))):
        m = json.load(open(f))
        name = os.path.basename(os.path.dirname(f))
        v = m.get("confirmed_by_me", {})
        first = ""
        notes = m.get("needs_to_manifest", "").strip().splitlines()
        for line in notes:
            line = line.strip("# ").strip()
            if len(line) > 25:
                first = line[:170]
                break
        det = m.get("detected_by", [])
        own = m["property"] in det
        first_try = "yes" if m.get("own_check_detected_it_on_arrival", True) else "no"
        rows.append((name, m["property"], "yes" if v.get("confirmed") else "NO", ", ".join(det) or "-", "yes" if own else "no", first_try if (name.count("-r4") or name.count("-r5")) else "", first))
    out = ["# Seeded breakages", "",
           "Each directory holds `patch.diff`, the demonstration `demo.py`, the author's `notes.md` and `meta.json` (what it needs to manifest, what was run to confirm it, which checks detect it).",
           "All were written by sub-agents that saw only the text of one property and a scratch worktree (nothing from /verif), then confirmed here in a fresh scratch worktree: the demonstration passes on the unchanged tree and fails with the change, and the repository's test suite passes exactly the baseline's stable set with the change applied.",
           "Each `patch.diff` applies to the `base_commit` recorded in its `meta.json` (the repository HEAD when the seed was written); where a later `fix:` commit rewrote the same lines, confirm / detect with `SEED_BASE=<base_commit> python3 mc/seedtest.py ...`.",
           "", "| seed | property | confirmed | detected by (quick tier) | by its own check | rounds 3-4: by its own check as it stood when the seed arrived | what it is |", "|---|---|---|---|---|---|---|"]
    for r in rows:
        out.append("| " + " | ".join(r) + " |")
    n = len(rows)
    r4 = [r for r in rows if "-r4" in r[0]]
    r5 = [r for r in rows if "-r5" in r[0]]
    out += ["", f"{n} seeded changes; {sum(1 for r in rows if r[3] != '-')} detected by at least one check, {sum(1 for r in rows if r[4] == 'yes')} by the check of the property they were written against.",
            f"Round 3 (directories *-r4*, {len(r4)} changes): {sum(1 for r in r4 if r[5] == 'yes')} were detected by their own check as it stood when they arrived, {sum(1 for r in r4 if r[4] == 'yes')} after strengthening.",
            f"Round 4 (directories *-r5*, {len(r5)} changes): {sum(1 for r in r5 if r[5] == 'yes')} detected on arrival (seeds whose check was strengthened from the author's report before measuring count as misses), {sum(1 for r in r5 if r[4] == 'yes')} after strengthening."]
    open(os.path.join(ROOT, "seeded", "README.md"), "w").write("\n".join(out) + "\n")
    print("\n".join(out[-3:]))


if __name__ == "__main__":
    main()
