"""A small process pool with a per-task wall-clock horizon.

Work is a list of JSON-able case records; each worker imports the check module and calls
``run_case(case)``. A task exceeding its horizon has its worker killed and is reported as a
non-termination outcome (never as a hang, never silently dropped)."""
import importlib
import multiprocessing as mp
import os
import queue
import time
import traceback


MAX_TASKS_PER_WORKER = 120


def _worker(modname, x64, task_q, result_q, wid):
    os.environ["MC_X64"] = "1" if x64 else "0"
    try:
        from mc import shim

        shim.setup(x64)
        mod = importlib.import_module(modname)
    except Exception:
        result_q.put(("fatal", wid, -1, traceback.format_exc()))
        return
    n_done = 0
    while True:
        if n_done >= MAX_TASKS_PER_WORKER:
            # long-lived workers accumulate compiled executables (3 GB each after a few thousand expressions):
            # retire and let the parent start a fresh one
            result_q.put(("retire", wid, -1, None))
            return
        item = task_q.get()
        if item is None:
            break
        n_done += 1
        idx, case = item
        result_q.put(("start", wid, idx, None))
        t0 = time.time()
        try:
            res = mod.run_case(case)
        except BaseException as e:  # noqa: BLE001 - reported, never swallowed
            res = {
                "transitions": 0,
                "violations": [
                    {
                        "sig": f"crash|{type(e).__name__}",
                        "msg": f"uncaught {type(e).__name__}: {e}",
                        "detail": {"traceback": traceback.format_exc()[-3000:]},
                    }
                ],
            }
        res["wall_s"] = time.time() - t0
        result_q.put(("done", wid, idx, res))


def run_pool(modname, cases, *, x64=True, workers=None, horizon_s=600.0, progress=None):
    """Run every case; returns list of results aligned with ``cases``.

    A result is the dict returned by run_case, or {"timeout": True, ...}."""
    n = len(cases)
    if n == 0:
        return []
    workers = max(1, min(workers or (os.cpu_count() or 4), n))
    ctx = mp.get_context("spawn")
    task_q = ctx.Queue()
    result_q = ctx.Queue()
    for i, c in enumerate(cases):
        task_q.put((i, c))
    procs = {}
    running = {}  # wid -> (idx, t_start)
    next_wid = 0

    def spawn():
        nonlocal next_wid
        wid = next_wid
        next_wid += 1
        p = ctx.Process(target=_worker, args=(modname, x64, task_q, result_q, wid), daemon=True)
        p.start()
        procs[wid] = p
        return wid

    for _ in range(workers):
        spawn()
    results = [None] * n
    died = {}
    done = 0
    fatal = None
    last_progress = time.time()
    while done < n:
        try:
            kind, wid, idx, payload = result_q.get(timeout=1.0)
        except queue.Empty:
            kind = None
        now = time.time()
        if kind == "start":
            running[wid] = (idx, now)
        elif kind == "done":
            running.pop(wid, None)
            if results[idx] is None:
                results[idx] = payload
                done += 1
        elif kind == "retire":
            p_old = procs.pop(wid, None)
            if p_old is not None:
                p_old.join(timeout=5)
            spawn()
        elif kind == "fatal":
            fatal = payload
            break
        # horizon watchdog
        for wid, (idx, t0) in list(running.items()):
            if now - t0 > horizon_s:
                p = procs.pop(wid)
                p.kill()
                p.join()
                running.pop(wid)
                if results[idx] is None:
                    results[idx] = {
                        "timeout": True,
                        "transitions": 0,
                        "violations": [
                            {
                                "sig": "non-termination",
                                "msg": f"case did not finish within the {horizon_s:.0f}s horizon",
                                "detail": {},
                            }
                        ],
                        "wall_s": now - t0,
                    }
                    done += 1
                spawn()
        # dead workers (crash of the interpreter itself, e.g. segfault / OOM kill)
        for wid, p in list(procs.items()):
            if not p.is_alive() and wid in running:
                idx, t0 = running.pop(wid)
                procs.pop(wid)
                died[idx] = died.get(idx, 0) + 1
                if results[idx] is None and died[idx] < 2:
                    task_q.put((idx, cases[idx]))  # one retry in a fresh worker before it counts
                elif results[idx] is None:
                    results[idx] = {
                        "transitions": 0,
                        "violations": [
                            {
                                "sig": "worker-died",
                                "msg": f"worker process died (exit {p.exitcode}) while running the case",
                                "detail": {},
                            }
                        ],
                        "wall_s": now - t0,
                    }
                    done += 1
                spawn()
        if progress and now - last_progress > 15:
            progress(done, n)
            last_progress = now
    for _ in procs:
        task_q.put(None)
    deadline = time.time() + 5
    for p in procs.values():
        p.join(timeout=max(0.1, deadline - time.time()))
        if p.is_alive():
            p.kill()
    if fatal is not None:
        raise RuntimeError("worker failed to start:\n" + fatal)
    return results
