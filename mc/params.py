"""Parameter levels: states of the trainable partition that optimiser updates can reach.

The trainable partition is taken exactly as the training loops take it
(eqx.partition(., is_inexact_array, is_leaf=NonTrainable)); level 0 = as constructed, level k>0 =
raw leaf + delta_k * pattern, with a deterministic, seed-dependent pattern whose entries are pairwise
distinct (so sibling parameters differ)."""
import math

DELTAS = {0: 0.0, 1: 0.5, 2: 2.0, 3: -1.0}


def _pattern(n, salt):
    return [math.sin(1.7 * i + 0.9 * salt + 0.3) + 0.31 * math.cos(2.9 * i + salt) for i in range(n)]


def perturb(tree, level, seed=0, scale=1.0):
    if level == 0:
        return tree
    import equinox as eqx
    import jax
    import jax.numpy as jnp

    from flowjax import wrappers

    params, static = eqx.partition(
        tree, eqx.is_inexact_array, is_leaf=lambda leaf: isinstance(leaf, wrappers.NonTrainable)
    )
    leaves, treedef = jax.tree_util.tree_flatten(params)
    out = []
    for li, leaf in enumerate(leaves):
        n = int(leaf.size)
        pat = jnp.asarray(_pattern(n, 13 * li + 7 * seed + level), leaf.dtype).reshape(leaf.shape)
        out.append(leaf + DELTAS[level] * scale * pat)
    return eqx.combine(jax.tree_util.tree_unflatten(treedef, out), static)
