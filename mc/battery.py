"""Boundary-directed alphabets and the jitted evaluation bundle shared by the grammar-based checks."""
from __future__ import annotations

from math import prod

import numpy as np

LADDER = [0.0, 1e-3, 0.3, 1.0, 2.5, 10.0, 1e2, 1e4]
MAX_CONSTS = 14


def np_dtype():
    import jax

    return np.float64 if jax.config.jax_enable_x64 else np.float32


def boundary_constants(obj):
    """Every constant the formulas of obj compare against (spline interval ends and knots, +-max_val,
    tanh(max_val)), read from the UNWRAPPED pytree."""
    import jax

    import flowjax.bijections as B
    from flowjax.wrappers import unwrap

    consts = set()
    u = unwrap(obj)

    def is_node(n):
        return isinstance(n, (B.RationalQuadraticSpline, B.LeakyTanh))

    for n in jax.tree_util.tree_leaves(u, is_leaf=is_node):
        if isinstance(n, B.RationalQuadraticSpline):
            consts.update(float(v) for v in n.interval)
            for arr in (n.x_pos, n.y_pos):
                a = np.asarray(arr, float).ravel()
                consts.update(a[np.isfinite(a)].tolist())
        elif isinstance(n, B.LeakyTanh):
            mv = float(n.max_val)
            t = float(np.tanh(mv))
            consts.update([mv, -mv, t, -t])
    # transformers of coupling / autoregressive layers live in a constructor closure, not in the pytree
    import jax.numpy as jnp

    def is_cond(n):
        return isinstance(n, (B.Coupling, B.MaskedAutoregressive))

    for n in jax.tree_util.tree_leaves(u, is_leaf=is_cond):
        if is_cond(n):
            try:
                mlp = n.conditioner if isinstance(n, B.Coupling) else n.masked_autoregressive_mlp
                out = mlp.layers[-1].bias.shape[-1]
                dims = (n.dim - n.untransformed_dim) if isinstance(n, B.Coupling) else n.shape[-1]
                tr = n.transformer_constructor(jnp.zeros(out // dims))
                consts.update(boundary_constants(tr))
            except Exception:
                pass
    cs = sorted(consts)
    if len(cs) > MAX_CONSTS:
        idx = sorted(set(np.linspace(0, len(cs) - 1, MAX_CONSTS).round().astype(int).tolist()))
        cs = [cs[i] for i in idx]
    return cs


def scalar_alphabet(consts, dtype):
    vals = []
    for v in LADDER:
        vals += [v, -v] if v else [0.0]
    vals += [1.0, -1.0]
    for c in consts:
        c = dtype(c)
        vals += [float(np.nextafter(c, dtype(-np.inf))), float(c), float(np.nextafter(c, dtype(np.inf)))]
    out, seen = [], set()
    tiny = 1e-30 if dtype == np.float64 else 1e-18
    for v in vals:
        v = float(dtype(v))
        if v != 0 and abs(v) < tiny:
            # XLA:CPU flushes denormals to zero, and at the smallest normal numbers 1/x (the gradient of log) already
            # overflows: the "neighbours of 0" of the alphabet are +-1e-30 (float64) / +-1e-18 (float32)
            v = float(np.sign(v)) * tiny
        if v not in seen:
            seen.add(v)
            out.append(v)
    return out


def fit(a, code):
    """Map scalar a into the element's domain: R real, P positive, U open unit interval."""
    if code == "P":
        return abs(a) if a != 0 else 0.3
    if code == "U":
        return a if abs(a) < 1 else float(np.sign(a)) * (1.0 - 1.0 / (1.0 + abs(a)))
    return a


def input_batch(codes, consts, dtype, max_points=640):
    """(N, *shape) array: all-equal vectors, one-coordinate-deviates vectors, fixed mixed-sign vectors."""
    shape = codes.shape
    n = max(1, prod(shape))
    flat_codes = codes.reshape(-1) if n == codes.size else np.full(n, "R")
    A = scalar_alphabet(consts, dtype)
    rows = []
    for a in A:
        rows.append([fit(a, c) for c in flat_codes])
    base = [fit([0.3, -0.7, 1.1, -0.2, 0.6, -1.4, 0.9, 0.15][i % 8] * (1 + i // 8), c) for i, c in enumerate(flat_codes)]
    if n > 1:
        coords = list(range(n))
        budget = max_points - len(A) - 4
        if n * len(A) > budget:
            keep = max(2, budget // len(A))
            coords = sorted(set(coords[: keep - 1] + [n - 1]))
        for j in coords:
            for a in A:
                r = list(base)
                r[j] = fit(a, flat_codes[j])
                rows.append(r)
        for sgn in ([1, -1], [-1, 1], [1, 1, -1], [-2.5, 0.001, 1e2]):
            rows.append([fit(sgn[i % len(sgn)] * (1.0 + 0.5 * i), c) for i, c in enumerate(flat_codes)])
    X = np.asarray(rows, dtype=dtype).reshape((len(rows), *shape))
    return X


def conditions(cond_shape, dtype, k=3):
    if cond_shape is None:
        return [None]
    n = max(1, prod(cond_shape))
    i = np.arange(n)
    cs = [np.zeros(n), np.sin(1.9 * i + 0.4) * 1.5 + 0.2 * (-1.0) ** i, 10.0 * (-1.0) ** i * (1 + 0.1 * i)]
    return [np.asarray(c, dtype).reshape(cond_shape) for c in cs[:k]]


def pad_batch(X, mult=64):
    n = X.shape[0]
    m = ((n + mult - 1) // mult) * mult
    if m == n:
        return X, n
    pad = np.repeat(X[:1], m - n, axis=0)
    return np.concatenate([X, pad], axis=0), n


_BUNDLES = {}


def install_tie_patch():
    """Oracle-side only. JAX differentiates max/min (hence clip) with weight 0.5 when the two operands are
    exactly tied. A spline value that rounds onto the interval end therefore gets HALF its slope from
    autodiff, which is an artefact of the tie convention, not the derivative of the map. The Jacobian
    oracle takes the one-sided value of the unclipped branch instead (weight 1 at a tie)."""
    import jax._src.lax.lax as L

    if getattr(L, "_mc_tie_patched", False):
        return

    def _balanced_cmp(x, y):
        ge_mask = L.ge(x, y)
        ones = L.full_like(ge_mask, 1, dtype=x.dtype)
        zeros = L.full_like(ge_mask, 0, dtype=x.dtype)
        return L.select(ge_mask, ones, zeros)

    if not hasattr(L, "_balanced_cmp"):
        raise RuntimeError("jax internals changed: cannot install the tie convention for the Jacobian oracle")
    L._balanced_cmp = _balanced_cmp
    L._mc_tie_patched = True


def bundles():
    """filter_jit'ed evaluation bundles (compiled once per pytree structure / batch size)."""
    if _BUNDLES:
        return _BUNDLES
    install_tie_patch()
    import equinox as eqx
    import jax

    def mk(method, with_jac):
        @eqx.filter_jit
        def f(b, X, c):
            def one(x):
                y = getattr(b, method)(x, c)
                y2, ld = getattr(b, method + "_and_log_det")(x, c)
                if with_jac:
                    J = jax.jacfwd(lambda x: getattr(b, method)(x, c))(x)
                else:
                    J = jax.numpy.zeros(())
                return y, y2, ld, J

            return jax.vmap(one)(X)

        return f

    _BUNDLES.update(fwd=mk("transform", False), inv=mk("inverse", False), fwd_jac=mk("transform", True),
                    inv_jac=mk("inverse", True))
    return _BUNDLES
    import equinox as eqx
    import jax

    @eqx.filter_jit
    def fwd(b, X, c):
        def one(x):
            y = b.transform(x, c)
            y2, ld = b.transform_and_log_det(x, c)
            return y, y2, ld

        return jax.vmap(one)(X)

    @eqx.filter_jit
    def inv(b, Y, c):
        def one(y):
            x = b.inverse(y, c)
            x2, ld = b.inverse_and_log_det(y, c)
            return x, x2, ld

        return jax.vmap(one)(Y)

    @eqx.filter_jit
    def jac_fwd(b, X, c):
        return jax.vmap(jax.jacfwd(lambda x: b.transform(x, c)))(X)

    @eqx.filter_jit
    def jac_inv(b, Y, c):
        return jax.vmap(jax.jacfwd(lambda y: b.inverse(y, c)))(Y)

    _BUNDLES.update(fwd=fwd, inv=inv, jac_fwd=jac_fwd, jac_inv=jac_inv)
    return _BUNDLES


def run_padded(fn, b, X, c):
    Xp, n = pad_batch(np.asarray(X))
    out = fn(b, Xp, c)
    import jax

    return jax.tree_util.tree_map(lambda a: np.asarray(a)[:n], out)


def mat(J, shape):
    """(N, *shape, *shape) -> (N, n, n)"""
    n = max(1, prod(shape))
    return np.asarray(J, float).reshape(J.shape[0], n, n)


def inf_norm_rows(M):
    return np.abs(M).sum(axis=-1).max(axis=-1)


def vec_inf(X):
    return np.abs(np.asarray(X, float).reshape(X.shape[0], -1)).max(axis=1) if X.size else np.zeros(X.shape[0])


def safe_inv(M):
    """Batched inverse with conditioning; returns (Minv, cond, ok)."""
    N = M.shape[0]
    Minv = np.full_like(M, np.nan)
    cond = np.full(N, np.inf)
    ok = np.zeros(N, bool)
    fin = np.isfinite(M).all(axis=(1, 2))
    for i in np.nonzero(fin)[0]:
        try:
            c = np.linalg.cond(M[i], np.inf)
            if np.isfinite(c) and c < 1e12:
                Minv[i] = np.linalg.inv(M[i])
                cond[i] = c
                ok[i] = True
        except np.linalg.LinAlgError:
            pass
    return Minv, cond, ok


def slogdet_abs(M):
    sign, ld = np.linalg.slogdet(M)
    return ld
