"""Developer tool: run the repository's pinned test suite on a tree (default /repo working tree) and compare the set of
passing tests with BASELINE.json's stable_pass.   python3 mc/suitecheck.py [<tree>]"""
import json
import os
import subprocess
import sys
import xml.etree.ElementTree as ET

tree = sys.argv[1] if len(sys.argv) > 1 else "/repo"
junit = f"/tmp/suitecheck_{os.getpid()}.xml"
subprocess.run(f"cd {tree} && /venv/bin/python -m pytest -q -p no:cacheprovider --timeout=900 --continue-on-collection-errors --junitxml={junit}",
               shell=True, capture_output=True, text=True, env=dict(os.environ, PYTHONPATH=tree, JAX_PLATFORMS="cpu"))
stable = set(json.load(open("/root/.vp/BASELINE.json"))["stable_pass"])
passed = set()
for tc in ET.parse(junit).iter("testcase"):
    if not any(c.tag in ("failure", "error", "skipped") for c in tc):
        passed.add(f"{tc.get('classname')}::{tc.get('name')}")
os.remove(junit)
print(f"passed={len(passed)} stable_pass={len(stable)} missing={sorted(stable - passed)[:20]} extra={len(passed - stable)}")
sys.exit(0 if stable <= passed else 1)
