"""Developer tool for seeded breakages (never part of a registered command).

  python3 mc/seedtest.py verify <dir-with-patch.diff-and-demo.py> <tag>
      scratch worktree of /repo HEAD under /tmp: demo must pass WITHOUT the patch, fail WITH it, and the
      repository's test suite must pass exactly the baseline's stable set with the patch applied.
  python3 mc/seedtest.py detect <dir> <tag> <CHECK> [<CHECK> ...]
      scratch worktree with the patch applied, quick tier of the given checks run against it (MC_REPO).
"""
import json
import os
import subprocess
import sys
import xml.etree.ElementTree as ET

PY = "/venv/bin/python"
# a seed written against an earlier HEAD whose lines a later repo fix rewrote is confirmed and detected on ITS base commit
BASE = os.environ.get("SEED_BASE", "HEAD")


def sh(cmd, **kw):
    return subprocess.run(cmd, shell=isinstance(cmd, str), capture_output=True, text=True, **kw)


def verify(d, tag):
    wt = f"/tmp/vw_{tag}"
    sh(f"git -C /repo worktree remove --force {wt}")
    r = sh(f"git -C /repo worktree add -q --detach {wt} {BASE}")
    assert r.returncode == 0, r.stderr
    out = {"tag": tag, "base": BASE}
    env = dict(os.environ, PYTHONPATH=wt, JAX_PLATFORMS="cpu")
    try:
        r0 = sh([PY, os.path.join(d, "demo.py")], env=env, cwd=wt, timeout=1800)
        out["demo_without_patch_exit"] = r0.returncode
        r = sh(f"git -C {wt} apply {os.path.join(d, 'patch.diff')}")
        if r.returncode != 0:  # the seed was written against an earlier HEAD: fall back to a 3-way merge
            r = sh(f"git -C {wt} apply --3way {os.path.join(d, 'patch.diff')}")
        out["patch_applies"] = r.returncode == 0
        if r.returncode != 0:
            out["apply_error"] = r.stderr[-500:]
            return out
        r1 = sh([PY, os.path.join(d, "demo.py")], env=env, cwd=wt, timeout=1800)
        out["demo_with_patch_exit"] = r1.returncode
        out["demo_with_patch_tail"] = (r1.stdout + r1.stderr)[-600:]
        junit = f"/tmp/vw_{tag}.xml"
        sh(f"cd {wt} && {PY} -m pytest -q -p no:cacheprovider --timeout=900 --continue-on-collection-errors --junitxml={junit} tests", env=env, timeout=3600)
        stable = set(json.load(open("/root/.vp/BASELINE.json"))["stable_pass"])
        passed = set()
        for tc in ET.parse(junit).iter("testcase"):
            if not any(c.tag in ("failure", "error", "skipped") for c in tc):
                passed.add(f"{tc.get('classname')}::{tc.get('name')}")
        out["suite_passed"] = len(passed)
        out["suite_missing_from_baseline"] = sorted(stable - passed)[:10]
        out["suite_ok"] = stable <= passed
        os.remove(junit)
        out["confirmed"] = bool(out["demo_without_patch_exit"] == 0 and out["demo_with_patch_exit"] not in (0, None) and out["suite_ok"])
    finally:
        sh(f"git -C /repo worktree remove --force {wt}")
    return out


def detect(d, checks, tag="x"):
    """Runs the checks against a scratch worktree of /repo HEAD with the patch applied (MC_REPO), so that /repo
    itself - which background runs may be reading - is never modified."""
    wt = f"/tmp/dw_{tag}"
    sh(f"git -C /repo worktree remove --force {wt}")
    r = sh(f"git -C /repo worktree add -q --detach {wt} {BASE}")
    assert r.returncode == 0, r.stderr
    res = {}
    try:
        r = sh(f"git -C {wt} apply {os.path.join(d, 'patch.diff')}")
        if r.returncode != 0:
            r = sh(f"git -C {wt} apply --3way {os.path.join(d, 'patch.diff')}")
        assert r.returncode == 0, r.stderr
        env = dict(os.environ, MC_REPO=wt, PYTHONPATH=wt)
        for c in checks:
            p = sh([PY, "-m", "mc.run", c, "--tier", "quick"], cwd="/verif", timeout=7200, env=env)
            lines = p.stdout.strip().splitlines()
            viol = [l for l in lines if l.startswith("  violation")][:3]
            res[c] = {"exit": p.returncode, "summary": lines[-1] if lines else "", "first_violations": [v[:400] for v in viol]}
    finally:
        sh(f"git -C /repo worktree remove --force {wt}")
    return res


def process(prop, m, checks):
    """verify + detect one seeded change and file it under /verif/seeded/<prop>-<m>/."""
    import shutil

    root = os.environ.get("SEED_ROOT", "/tmp/seed_")
    wave = os.environ.get("SEED_WAVE", "")
    src = f"{root}{prop}/{m}"
    tag = f"{prop}_{wave}{m}"
    v = verify(src, tag)
    dres = detect(src, checks, tag) if v.get("patch_applies") else {}
    dst = f"/verif/seeded/{prop}-{wave}{m}"
    os.makedirs(dst, exist_ok=True)
    for f in ("patch.diff", "demo.py", "notes.md"):
        if os.path.exists(os.path.join(src, f)):
            shutil.copy(os.path.join(src, f), dst)
    notes = open(os.path.join(src, "notes.md")).read() if os.path.exists(os.path.join(src, "notes.md")) else ""
    meta = {
        "property": prop,
        "origin": "independent sub-agent given only the property text and a scratch worktree",
        "needs_to_manifest": notes[:1500],
        "confirmed_by_me": v,
        "what_i_ran": {
            "verify": "scratch worktree of /repo HEAD: demo.py without patch (exit 0 expected), git apply patch.diff, demo.py (non-zero expected), full pytest suite compared with BASELINE.json stable_pass",
            "detect": "quick tier of the listed checks with MC_REPO pointing at a scratch worktree holding the patch",
        },
        "base_commit": sh(f"git -C /repo rev-parse --short {BASE}").stdout.strip(),
        "detection": dres,
        "detected_by": sorted(c for c, r in dres.items() if r["exit"] == 1),
        "kept": bool(v.get("confirmed")),
    }
    with open(os.path.join(dst, "meta.json"), "w") as f:
        json.dump(meta, f, indent=1)
    print(f"{prop}-{wave}{m}: confirmed={v.get('confirmed')} suite_ok={v.get('suite_ok')} demo(with)={v.get('demo_with_patch_exit')} demo(without)={v.get('demo_without_patch_exit')} detected_by={meta['detected_by']} exits={ {c: r['exit'] for c, r in dres.items()} }")


def redetect(name, checks):
    """Re-run detection for a filed seed after the checks were strengthened; the first result is kept in meta.json as
    detection_before_strengthening."""
    d = f"/verif/seeded/{name}"
    meta = json.load(open(os.path.join(d, "meta.json")))
    if "own_check_detected_it_on_arrival" not in meta:
        meta["own_check_detected_it_on_arrival"] = meta["property"] in meta.get("detected_by", [])
    dres = detect(d, checks, name.replace("-", "_"))
    meta.setdefault("detection", {}).update(dres)
    meta["detected_by"] = sorted(c for c, r in meta["detection"].items() if r["exit"] == 1)
    json.dump(meta, open(os.path.join(d, "meta.json"), "w"), indent=1)
    print(f"{name}: detected_by={meta['detected_by']} exits={ {c: r['exit'] for c, r in dres.items()} }")


if __name__ == "__main__":
    if sys.argv[1] == "redetect":
        redetect(sys.argv[2], sys.argv[3:])
    elif sys.argv[1] == "process":
        process(sys.argv[2], sys.argv[3], sys.argv[4:])
    elif sys.argv[1] == "verify":
        print(json.dumps(verify(sys.argv[2], sys.argv[3]), indent=1))
    else:
        print(json.dumps(detect(sys.argv[2], sys.argv[4:], sys.argv[3]), indent=1))
