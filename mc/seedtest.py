"""Developer tool for seeded breakages (never part of a registered command).

  python3 mc/seedtest.py verify <dir-with-patch.diff-and-demo.py> <tag>
      scratch worktree of /repo HEAD under /tmp: demo must pass WITHOUT the patch, fail WITH it, and the
      repository's test suite must pass exactly the baseline's stable set with the patch applied.
  python3 mc/seedtest.py detect <dir> <CHECK> [<CHECK> ...]
      apply the patch to /repo, run the quick tier of the given checks, ALWAYS revert; prints verdicts.
"""
import json
import os
import subprocess
import sys
import xml.etree.ElementTree as ET

PY = "/venv/bin/python"


def sh(cmd, **kw):
    return subprocess.run(cmd, shell=isinstance(cmd, str), capture_output=True, text=True, **kw)


def verify(d, tag):
    wt = f"/tmp/vw_{tag}"
    sh(f"git -C /repo worktree remove --force {wt}")
    r = sh(f"git -C /repo worktree add -q --detach {wt} HEAD")
    assert r.returncode == 0, r.stderr
    out = {"tag": tag}
    env = dict(os.environ, PYTHONPATH=wt, JAX_PLATFORMS="cpu")
    try:
        r0 = sh([PY, os.path.join(d, "demo.py")], env=env, cwd=wt, timeout=1800)
        out["demo_without_patch_exit"] = r0.returncode
        r = sh(f"git -C {wt} apply {os.path.join(d, 'patch.diff')}")
        out["patch_applies"] = r.returncode == 0
        if r.returncode != 0:
            out["apply_error"] = r.stderr[-500:]
            return out
        r1 = sh([PY, os.path.join(d, "demo.py")], env=env, cwd=wt, timeout=1800)
        out["demo_with_patch_exit"] = r1.returncode
        out["demo_with_patch_tail"] = (r1.stdout + r1.stderr)[-600:]
        junit = f"/tmp/vw_{tag}.xml"
        sh(f"cd {wt} && {PY} -m pytest -q -p no:cacheprovider --timeout=900 --continue-on-collection-errors --junitxml={junit} tests", env=env, timeout=3600)
        stable = set(json.load(open("/root/.vp/BASELINE.json"))["stable_pass"])
        passed = set()
        for tc in ET.parse(junit).iter("testcase"):
            if not any(c.tag in ("failure", "error", "skipped") for c in tc):
                passed.add(f"{tc.get('classname')}::{tc.get('name')}")
        out["suite_passed"] = len(passed)
        out["suite_missing_from_baseline"] = sorted(stable - passed)[:10]
        out["suite_ok"] = stable <= passed
        os.remove(junit)
        out["confirmed"] = bool(out["demo_without_patch_exit"] == 0 and out["demo_with_patch_exit"] not in (0, None) and out["suite_ok"])
    finally:
        sh(f"git -C /repo worktree remove --force {wt}")
    return out


def detect(d, checks):
    assert sh("git -C /repo status --porcelain").stdout.strip() == "", "/repo is not clean"
    r = sh(f"git -C /repo apply {os.path.join(d, 'patch.diff')}")
    assert r.returncode == 0, r.stderr
    res = {}
    try:
        for c in checks:
            p = sh([PY, "-m", "mc.run", c, "--tier", "quick"], cwd="/verif", timeout=7200)
            lines = p.stdout.strip().splitlines()
            viol = [l for l in lines if l.startswith("  violation")][:3]
            res[c] = {"exit": p.returncode, "summary": lines[-1] if lines else "", "first_violations": [v[:400] for v in viol]}
    finally:
        sh("git -C /repo checkout -- .")
        assert sh("git -C /repo status --porcelain").stdout.strip() == ""
    return res


if __name__ == "__main__":
    if sys.argv[1] == "verify":
        print(json.dumps(verify(sys.argv[2], sys.argv[3]), indent=1))
    else:
        print(json.dumps(detect(sys.argv[2], sys.argv[3:]), indent=1))
