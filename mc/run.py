"""CLI: python -m mc.run <ID> [--tier quick|thorough] [--replay <file>]

Exit 0: every explored case held (KNOWN-FINDING lines allowed). Exit 1: at least one
`VIOLATION property=<id> replay=<path>` line. Exit 2: harness error."""
import argparse
import hashlib
import importlib
import importlib.util
import json
import os
import sys
import time
import traceback

ROOT = os.path.dirname(os.path.dirname(os.path.abspath(__file__)))
if ROOT not in sys.path:
    sys.path.insert(0, ROOT)

from mc import findings  # noqa: E402
from mc.pool import run_pool  # noqa: E402

MAX_PRINT = 25


def _json_default(o):
    try:
        import numpy as np

        if isinstance(o, np.ndarray):
            return o.tolist()
        if isinstance(o, (np.generic,)):
            return o.item()
    except Exception:
        pass
    return repr(o)


def dumps(o, **kw):
    return json.dumps(o, default=_json_default, **kw)


def write_replay(prop, case, viol):
    d = os.path.join(ROOT, "replays", prop)
    os.makedirs(d, exist_ok=True)
    blob = dumps({"property": prop, "case": case, "violation": viol}, sort_keys=True, indent=1)
    sha = hashlib.sha1(blob.encode()).hexdigest()[:16]
    path = os.path.join(d, sha + ".json")
    with open(path, "w") as f:
        f.write(blob)
    return path


def do_replay(mod, prop, path):
    from mc import shim

    with open(path) as f:
        rec = json.load(f)
    case = rec["case"]
    shim.setup(bool(case.get("x64", True)))
    res = mod.run_case(case)
    want = rec.get("violation", {}).get("sig")
    viols = res.get("violations", [])
    known = findings.load(prop)
    hit = False
    for v in viols:
        tag = "KNOWN-FINDING" if findings.match(known, v["sig"]) else "VIOLATION"
        print(f"{tag}: property={prop} sig={v['sig']} :: {v['msg']}")
        if tag == "VIOLATION":
            hit = True
    if not viols:
        print(f"replay of {path}: no violation reproduced (recorded sig: {want})")
    if hit:
        print(f"VIOLATION property={prop} replay={path}")
        return 1
    return 0


def main(argv=None):
    ap = argparse.ArgumentParser()
    ap.add_argument("prop")
    ap.add_argument("--tier", default=os.environ.get("VERIF_TIER", "quick"))
    ap.add_argument("--replay")
    ap.add_argument("--workers", type=int, default=int(os.environ.get("VERIF_WORKERS", "0")) or None)
    ap.add_argument("--limit", type=int, default=0, help="debug: only the first N cases (evidence marks the cap)")
    ap.add_argument("--filter", default="", help="debug: only cases whose id contains this")
    a = ap.parse_args(argv)
    prop = a.prop.upper()
    tier = a.tier if a.tier in ("quick", "thorough") else "quick"
    seed = int(os.environ.get("VERIF_SEED", "0") or 0)
    os.environ.setdefault("PYTHONHASHSEED", "0")
    modname = f"checks.{prop.lower()}"
    t0 = time.time()
    try:
        if a.replay:
            mod = importlib.import_module(modname)
            return do_replay(mod, prop, a.replay)
        # enumerate in the parent WITHOUT importing jax where possible
        mod = importlib.import_module(modname + "_space") if _has_space(modname) else importlib.import_module(modname)
        cases = mod.enumerate_cases(tier, seed)
    except Exception:
        traceback.print_exc()
        print(f"HARNESS-ERROR property={prop} (enumeration failed)")
        return 2
    caps = []
    if a.filter:
        cases = [c for c in cases if a.filter in c["id"]]
        caps.append(f"debug filter {a.filter!r}")
    if a.limit:
        cases = cases[: a.limit]
        caps.append(f"debug limit {a.limit}")
    ids = [c["id"] for c in cases]
    if len(set(ids)) != len(ids):
        dup = sorted({i for i in ids if ids.count(i) > 1})[:5]
        print(f"HARNESS-ERROR property={prop} duplicate canonical states: {dup}")
        return 2
    import shutil

    shutil.rmtree(os.path.join(ROOT, "replays", prop), ignore_errors=True)
    horizon = getattr(mod, "HORIZON_S", {}).get(tier, 600.0)
    print(f"[{prop}] tier={tier} seed={seed} states(cases)={len(cases)} horizon={horizon:.0f}s", flush=True)

    def prog(d, n):
        print(f"[{prop}] {d}/{n} cases  t={time.time() - t0:.0f}s", flush=True)

    results = [None] * len(cases)
    try:
        for x64 in (True, False):
            sel = [i for i, c in enumerate(cases) if bool(c.get("x64", True)) == x64]
            if not sel:
                continue
            sub = [cases[i] for i in sel]
            # determinism probe: the first case of the group is run twice
            sub2 = sub + [sub[0]]
            res = run_pool(modname, sub2, x64=x64, workers=a.workers, horizon_s=horizon, progress=prog)
            d0, d1 = res[0].get("digest"), res[-1].get("digest")
            if d0 is not None and d1 is not None and d0 != d1:
                # seen once under extreme machine load and never reproduced: repeat the probe in a fresh pool before
                # declaring the harness non-deterministic
                again = run_pool(modname, [sub[0], sub[0]], x64=x64, workers=2, horizon_s=horizon)
                a0, a1 = again[0].get("digest"), again[1].get("digest")
                if a0 != a1 or a0 not in (d0, d1):
                    print(f"HARNESS-ERROR property={prop} non-deterministic observations for case {sub[0]['id']}")
                    return 2
                caps.append(f"determinism probe for {sub[0]['id'][:80]} disagreed once and agreed on repetition (3 of 4 identical)")
                if a0 != d0:
                    res[0] = again[0]
            for i, r in zip(sel, res[:-1]):
                results[i] = r
    except Exception:
        traceback.print_exc()
        print(f"HARNESS-ERROR property={prop} (pool failed)")
        return 2

    known = findings.load(prop)
    n_viol = 0
    known_hits = {}
    transitions = states = traces = nontrivial = 0
    outcomes = {}
    skipped = {}
    max_ratio = 0.0
    timeouts = 0
    samples = []
    extra = {}
    printed = 0
    for case, r in zip(cases, results):
        transitions += int(r.get("transitions", 0))
        states += int(r.get("states", 1))
        traces += int(r.get("traces", r.get("transitions", 0)))
        nontrivial += int(r.get("nontrivial", 0))
        timeouts += 1 if r.get("timeout") else 0
        for o, k in (r.get("outcomes") or {}).items():
            outcomes[o] = outcomes.get(o, 0) + k
        for o, k in (r.get("skipped") or {}).items():
            skipped[o] = skipped.get(o, 0) + k
        max_ratio = max(max_ratio, float(r.get("max_ratio", 0.0)))
        for k, v in (r.get("counters") or {}).items():
            extra[k] = extra.get(k, 0) + v
        if len(samples) < 4 and r.get("sample") is not None:
            samples.append({"case": case["id"], "observed": r["sample"]})
        for v in r.get("violations", []):
            e = findings.match(known, v["sig"])
            if e is not None:
                known_hits.setdefault(e["signature"], [e, 0])[1] += 1
                continue
            n_viol += 1
            path = write_replay(prop, case, v)
            if printed < MAX_PRINT:
                print(f"  violation sig={v['sig']} :: {v['msg'][:400]}")
                print(f"VIOLATION property={prop} replay={path}")
                printed += 1
    if n_viol > printed:
        print(f"  ... {n_viol - printed} further violations (replays written)")
    for sig, (e, k) in sorted(known_hits.items()):
        print(f"KNOWN-FINDING: property={prop} {e['what']} [signature {sig}; {k} case(s)]")
    if not samples:
        samples = [{"case": c["id"]} for c in cases[:3]]
    slow = sorted(((r.get("wall_s", 0.0), c["id"][:160]) for c, r in zip(cases, results)), reverse=True)[:5]
    extra["case_wall_s_total"] = round(sum(r.get("wall_s", 0.0) for r in results), 1)
    if os.environ.get("MC_PROFILE"):
        agg = {}
        for c, r in zip(cases, results):
            k = c["id"].split("|")[0] + "|" + (c.get("spec", {}).get("k") or c.get("leg") or c.get("factory") or "")
            a = agg.setdefault(k, [0, 0.0])
            a[0] += 1
            a[1] += r.get("wall_s", 0.0)
        for k, (n_, w) in sorted(agg.items(), key=lambda kv: -kv[1][1]):
            print(f"  profile {k}: {n_} cases {w:.0f}s ({w / n_:.1f}s/case)")
    fin = {}
    if hasattr(mod, "finalize"):
        try:
            fin = mod.finalize(tier, seed, cases, results) or {}
        except Exception:
            traceback.print_exc()
            print(f"HARNESS-ERROR property={prop} (finalize failed)")
            return 2
    for v in fin.pop("violations", []):
        e = findings.match(known, v["sig"])
        if e is not None:
            print(f"KNOWN-FINDING: property={prop} {e['what']}")
            continue
        n_viol += 1
        path = write_replay(prop, v.get("case", {"id": "finalize"}), v)
        print(f"  violation sig={v['sig']} :: {v['msg'][:400]}")
        print(f"VIOLATION property={prop} replay={path}")
    if timeouts:
        caps.append(f"{timeouts} case(s) hit the wall-clock horizon (reported as violations)")
    caps += list(fin.pop("caps_hit", []))
    bounds = getattr(mod, "bounds", lambda t: {})(tier)
    exhaustive = not caps and bool(bounds.get("exhaustive_within_bounds", True))
    cov = {
        "states": states,
        "transitions": transitions,
        "traces_validated_against_impl": traces,
        "samples": samples,
        "evaluations": transitions,
        "distinct_nontrivial": nontrivial,
        "rule": getattr(mod, "RULE", ""),
        "exhaustive": exhaustive,
        "cases": len(cases),
        "bounds": bounds,
        "caps_hit": caps,
        "distinct_outcomes": outcomes,
        "skipped": skipped,
        "max_ratio_observed_over_threshold": max_ratio,
        "known_findings_hit": {s: k for s, (e, k) in known_hits.items()},
        "slowest_cases": [{"wall_s": round(w, 1), "case": i} for w, i in slow],
    }
    cov.update(extra)
    cov.update(fin)
    ev = {
        "property_id": prop,
        "tier": tier,
        "seed": seed,
        "level": "model_checking",
        "coverage": cov,
        "assumptions": list(getattr(mod, "ASSUMPTIONS", [])) + COMMON_ASSUMPTIONS,
        "wall_s": round(time.time() - t0, 2),
        "violations": n_viol,
    }
    # the registered evidence file only ever describes complete runs against /repo itself: developer runs (a scratch tree via
    # MC_REPO, --filter, --limit) write to .scratch/evidence_dev instead
    ev_dir = os.path.join(ROOT, "evidence")
    if os.environ.get("MC_REPO", "/repo") != "/repo" or a.filter or a.limit:
        ev_dir = os.path.join(ROOT, ".scratch", "evidence_dev")
    os.makedirs(ev_dir, exist_ok=True)
    with open(os.path.join(ev_dir, f"{prop}.json"), "w") as f:
        f.write(dumps(ev, indent=1))
    print(
        f"[{prop}] states={states} transitions={transitions} traces={traces} nontrivial={nontrivial} "
        f"outcomes={len(outcomes)} violations={n_viol} known={sum(k for _, k in known_hits.values())} "
        f"exhaustive={exhaustive} wall={time.time() - t0:.0f}s",
        flush=True,
    )
    if n_viol:
        return 1
    if transitions == 0:
        print(f"HARNESS-ERROR property={prop} vacuous run (0 transitions)")
        return 2
    return 0


COMMON_ASSUMPTIONS = [
    "JAX/XLA, Equinox, Optax, NumPy, SciPy are trusted (incl. autodiff as Jacobian oracle)",
    "harness-side Equinox shim (mc/shim.py) only changes whether a construction-time warning path raises",
    "claims hold for the enumerated alphabets/bounds only (see coverage.bounds)",
]


def _has_space(modname):
    try:
        return importlib.util.find_spec(modname + "_space") is not None
    except Exception:
        return False


if __name__ == "__main__":
    sys.exit(main())
