"""known_findings.json: committed, never written at run time.

Entry: {"property": "C14", "status": "known"|"fixed", "signature": <fnmatch pattern on the
violation signature>, "what": <text>, "commit": <sha, for fixed>}.
Only status == "known" suppresses (turns a matching violation into a KNOWN-FINDING line)."""
import fnmatch
import json
import os

PATH = os.path.join(os.path.dirname(os.path.dirname(os.path.abspath(__file__))), "known_findings.json")


def load(prop):
    if not os.path.exists(PATH):
        return []
    with open(PATH) as f:
        data = json.load(f)
    return [e for e in data.get("findings", []) if e.get("property") == prop]


def match(entries, sig):
    for e in entries:
        if e.get("status") == "known" and fnmatch.fnmatchcase(sig, e["signature"]):
            return e
    return None
