"""A typed grammar of flowjax bijection expressions (DESIGN.md section 2.2).

A *spec* is a JSON-able nested dict. ``info(spec)`` is the grammar's own type system (shape,
cond_shape, element-wise domain / codomain, which directions exist, whether a direction is
numerical) computed WITHOUT building anything; it is also the reference for declared shapes.
``build(spec, salt, level, seed)`` constructs the real flowjax object; every parameter is a
deterministic function of (seed, salt path, level), so children can be rebuilt independently
for the reference interpreter.  ``level`` selects a state of the trainable partition reachable
by optimiser updates (mc/params.py)."""
from __future__ import annotations

import itertools
import json
from math import prod

import numpy as np

LATTICE = [(), (1,), (2,), (3,), (2, 3), (3, 2), (1, 2), (2, 1, 2)]


def canon(spec) -> str:
    return json.dumps(spec, sort_keys=True, separators=(",", ":"))


def T(x):
    return tuple(x) if x is not None else None


# ----------------------------------------------------------------------------- type system
class Info:
    def __init__(self, shape, cond_shape, dom, cod, fwd=True, inv=True, num_fwd=False, num_inv=False, depth=0):
        self.shape, self.cond_shape = tuple(shape), T(cond_shape)
        self.dom, self.cod = dom, cod  # np arrays of 'R','P','U','X' with the bijection's shape
        self.fwd, self.inv, self.num_fwd, self.num_inv, self.depth = fwd, inv, num_fwd, num_inv, depth


def _full(shape, c):
    return np.full(shape, c, dtype="<U1")


class IllTyped(Exception):
    pass


def _merge_cond(cs):
    cs = [T(c) for c in cs if c is not None]
    if not cs:
        return None
    if any(c != cs[0] for c in cs):
        raise IllTyped("cond shapes differ")
    return cs[0]


def info(spec) -> Info:
    k = spec["k"]
    if k in ("Identity", "Affine", "AffineNeg", "Loc", "Scale", "Flip", "LeakyTanh"):
        s = T(spec["shape"])
        return Info(s, None, _full(s, "R"), _full(s, "R"))
    if k == "Permute":
        s = T(spec["shape"])
        return Info(s, None, _full(s, "R"), _full(s, "R"))
    if k in ("Exp", "SoftPlus"):
        s = T(spec["shape"])
        return Info(s, None, _full(s, "R"), _full(s, "P"))
    if k == "Tanh":
        s = T(spec["shape"])
        return Info(s, None, _full(s, "R"), _full(s, "U"))
    if k == "TriAffine":
        s = (spec["dim"],)
        return Info(s, None, _full(s, "R"), _full(s, "R"))
    if k == "AddCond":
        s = T(spec["shape"])
        return Info(s, T(spec["cond"]), _full(s, "R"), _full(s, "R"))
    if k == "RQS":
        return Info((), None, _full((), "R"), _full((), "R"))
    if k == "Planar":
        s = (spec["dim"],)
        c = None if spec.get("cond") is None else (spec["cond"],)
        return Info(s, c, _full(s, "R"), _full(s, "R"), inv=spec.get("slope") is not None)
    if k in ("Coupling", "MAF"):
        s = (spec["dim"],)
        c = None if spec.get("cond") is None else (spec["cond"],)
        return Info(s, c, _full(s, "R"), _full(s, "R"))
    if k == "BNAF":
        s = (spec["dim"],)
        c = None if spec.get("cond") is None else (spec["cond"],)
        return Info(s, c, _full(s, "R"), _full(s, "R"), num_inv=True)
    # ---- combinators
    if k == "Invert":
        c = info(spec["c"])
        return Info(c.shape, c.cond_shape, c.cod, c.dom, fwd=c.inv, inv=c.fwd, num_fwd=c.num_inv, num_inv=c.num_fwd,
                    depth=c.depth + 1)
    if k == "Chain":
        cs = [info(c) for c in spec["c"]]
        if any(c.shape != cs[0].shape for c in cs):
            raise IllTyped("chain shapes")
        exact = True
        for a, b in zip(cs, cs[1:]):
            if not np.all((a.cod == b.dom) | (b.dom == "R")):
                raise IllTyped("chain domains")
            exact &= bool(np.all(a.cod == b.dom))
        cod = cs[-1].cod if exact else _full(cs[0].shape, "X")
        dom = cs[0].dom
        return Info(cs[0].shape, _merge_cond([c.cond_shape for c in cs]), dom, cod, fwd=all(c.fwd for c in cs),
                    inv=all(c.inv for c in cs), num_fwd=any(c.num_fwd for c in cs), num_inv=any(c.num_inv for c in cs),
                    depth=1 + max(c.depth for c in cs))
    if k == "Scan":
        c = info(spec["c"])
        if not np.all((c.cod == c.dom) | (c.dom == "R")):
            raise IllTyped("scan domains")
        exact = bool(np.all(c.cod == c.dom)) or spec["n"] == 1
        return Info(c.shape, c.cond_shape, c.dom, c.cod if exact else _full(c.shape, "X"), c.fwd, c.inv, c.num_fwd,
                    c.num_inv, depth=c.depth + 1)
    if k == "Vmap":
        c = info(spec["c"])
        n = spec["n"]
        ca = spec.get("cond_axis")
        cond = c.cond_shape
        if ca is not None:
            if cond is None:
                raise IllTyped("cond axis for unconditional child")
            r = len(cond)
            if not -(r + 1) <= ca <= r:
                raise IllTyped("cond axis range")
            pos = ca if ca >= 0 else ca + r + 1
            cond = cond[:pos] + (n,) + cond[pos:]
        return Info((n, *c.shape), cond, np.stack([c.dom] * n), np.stack([c.cod] * n), c.fwd, c.inv, c.num_fwd,
                    c.num_inv, depth=c.depth + 1)
    if k in ("Concatenate", "Stack"):
        cs = [info(c) for c in spec["c"]]
        ax = spec["axis"]
        r = len(cs[0].shape)
        try:
            if k == "Concatenate":
                dom = np.concatenate([c.dom for c in cs], axis=ax)
                cod = np.concatenate([c.cod for c in cs], axis=ax)
            else:
                dom = np.stack([c.dom for c in cs], axis=ax)
                cod = np.stack([c.cod for c in cs], axis=ax)
        except Exception as e:  # numpy's own semantics define well-typedness
            raise IllTyped(str(e)) from e
        return Info(dom.shape, _merge_cond([c.cond_shape for c in cs]), dom, cod, all(c.fwd for c in cs),
                    all(c.inv for c in cs), any(c.num_fwd for c in cs), any(c.num_inv for c in cs),
                    depth=1 + max(c.depth for c in cs))
    if k == "Partial":
        c = info(spec["c"])
        s = T(spec["shape"])
        idx = make_index(spec["idx"])
        try:
            sub = np.zeros(s)[idx]
        except Exception as e:
            raise IllTyped(str(e)) from e
        if sub.shape != c.shape:
            raise IllTyped("partial index does not fit")
        dom, cod = _full(s, "R"), _full(s, "R")
        dom[idx], cod[idx] = c.dom, c.cod
        return Info(s, c.cond_shape, dom, cod, c.fwd, c.inv, c.num_fwd, c.num_inv, depth=c.depth + 1)
    if k == "Reshape":
        c = info(spec["c"])
        s = T(spec["shape"]) if spec.get("shape") is not None else c.shape
        cond = T(spec["cond"]) if spec.get("cond") is not None else c.cond_shape
        if prod(s) != prod(c.shape):
            raise IllTyped("reshape size")
        if spec.get("cond") is not None and (c.cond_shape is None or prod(cond) != prod(c.cond_shape)):
            raise IllTyped("reshape cond size")
        return Info(s, cond, c.dom.reshape(s), c.cod.reshape(s), c.fwd, c.inv, c.num_fwd, c.num_inv, depth=c.depth + 1)
    if k == "Embed":
        c = info(spec["c"])
        if c.cond_shape is None:
            raise IllTyped("embed needs conditional child")
        return Info(c.shape, T(spec["raw"]), c.dom, c.cod, c.fwd, c.inv, c.num_fwd, c.num_inv, depth=c.depth + 1)
    raise KeyError(k)


def make_index(ix):
    """JSON index spec -> python/numpy index."""
    t = ix["t"]
    if t == "int":
        return ix["v"]
    if t == "slice":
        return slice(*ix["v"])
    if t == "intarr":
        return np.asarray(ix["v"], dtype=int)
    if t == "boolarr":
        return np.asarray(ix["v"], dtype=bool)
    if t == "npboolarr":
        return np.asarray(ix["v"], dtype=bool)
    if t == "tuple":
        return tuple(make_index(i) for i in ix["v"])
    if t == "ellipsis":
        return Ellipsis
    raise KeyError(t)


# ----------------------------------------------------------------------------- construction
def _pat(n, salt, a=1.7, b=0.9):
    import jax.numpy as jnp

    i = jnp.arange(n)
    return jnp.sin(a * i + b * salt + 0.3) + 0.31 * jnp.cos(2.9 * i + salt)


def _perturb(tree, level, salt):
    """Traceable version of mc.params.perturb (salt may be a tracer)."""
    if level == 0:
        return tree
    import equinox as eqx
    import jax

    from flowjax import wrappers
    from mc.params import DELTAS

    params, static = eqx.partition(tree, eqx.is_inexact_array, is_leaf=lambda l: isinstance(l, wrappers.NonTrainable))
    leaves, treedef = jax.tree_util.tree_flatten(params)
    out = [
        leaf + DELTAS[level] * _pat(leaf.size, salt + 13 * li + level).reshape(leaf.shape).astype(leaf.dtype)
        for li, leaf in enumerate(leaves)
    ]
    return eqx.combine(jax.tree_util.tree_unflatten(treedef, out), static)


class CondMap:
    pass


_CONDMAP_CLS = []


def _cond_map_cls():
    if not _CONDMAP_CLS:
        import equinox as eqx
        import jax.numpy as jnp

        class CondMapModule(eqx.Module):
            w: object
            nd: int

            def __call__(self, c):
                return jnp.tensordot(self.w, c, axes=self.nd)

        _CONDMAP_CLS.append(CondMapModule)
    return _CONDMAP_CLS[0]


def _cond_map(shape, cond, salt):
    n = prod(shape) * prod(cond)
    w = (0.5 * _pat(n, salt, 1.3, 0.7) + 0.8).reshape(*shape, *cond)  # distinct, non-zero weights
    return _cond_map_cls()(w, len(cond))


def child_salt(salt, i):
    return salt * 7 + i + 1


LEAF_HOOK = None  # C12 sets this to freeze every leaf BEFORE it is handed to a combinator's constructor


def build(spec, salt=0, level=0, seed=0):
    """Build the real flowjax bijection. ``salt`` may be a traced int32 scalar."""
    import equinox as eqx
    import jax.numpy as jnp
    import jax.random as jr

    import flowjax.bijections as B

    k = spec["k"]
    sf = jnp.asarray(salt, float) + 0.37 * seed

    def key():
        return jr.fold_in(jr.PRNGKey(seed), salt)

    def shp():
        return T(spec["shape"])

    leaf = None
    if k == "Identity":
        leaf = B.Identity(shp())
    elif k == "Affine" and spec.get("bscale"):
        # scalar scale broadcast against a vector loc (the constructor's documented broadcasting), scale != 1
        leaf = B.Affine(0.8 * _pat(prod(shp()), sf).reshape(shp()), 1.7)
    elif k == "Affine":
        n = prod(shp())
        leaf = B.Affine(0.8 * _pat(n, sf).reshape(shp()), (0.6 + 0.45 * jnp.arange(n) + 0.2 * jnp.abs(_pat(n, sf, 2.1))).reshape(shp()))
    elif k == "AffineNeg":
        n = prod(shp())
        a = B.Affine(0.8 * _pat(n, sf).reshape(shp()), jnp.ones(shp()))
        raw = ((-1.0) ** jnp.arange(1, n + 1) * (4.0 + 0.7 * jnp.arange(n))).reshape(shp())  # first entry negative
        leaf = eqx.tree_at(lambda a: a.scale, a, raw)
    elif k == "Loc":
        leaf = B.Loc(1.1 * _pat(prod(shp()), sf).reshape(shp()))
    elif k == "Scale":
        n = prod(shp())
        leaf = B.Scale((0.4 + 0.55 * jnp.arange(n) + 0.2 * jnp.abs(_pat(n, sf))).reshape(shp()))
    elif k == "TriAffine":
        d = spec["dim"]
        m = (0.7 * _pat(d * d, sf, 1.1).reshape(d, d)).at[jnp.diag_indices(d)].set(0.5 + 0.4 * jnp.arange(d))
        leaf = B.TriangularAffine(0.6 * _pat(d, sf, 2.3), m, lower=spec.get("lower", True))
    elif k == "AddCond":
        leaf = B.AdditiveCondition(_cond_map(shp(), T(spec["cond"]), sf), shp(), T(spec["cond"]))
    elif k == "Exp":
        leaf = B.Exp(shp())
    elif k == "SoftPlus":
        leaf = B.SoftPlus(shp())
    elif k == "Tanh":
        leaf = B.Tanh(shp())
    elif k == "LeakyTanh":
        leaf = B.LeakyTanh(spec["max_val"], shp())
    elif k == "Permute":
        leaf = B.Permute(np.asarray(spec["perm"]).reshape(shp()))
    elif k == "Flip":
        leaf = B.Flip(shp())
    elif k == "RQS":
        iv = spec["interval"]
        leaf = B.RationalQuadraticSpline(knots=spec["knots"], interval=tuple(iv) if isinstance(iv, list) else iv)
    elif k == "Planar":
        kw = {}
        if spec.get("cond") is not None:
            kw = dict(width_size=3, depth=1)
        leaf = B.Planar(key(), dim=spec["dim"], cond_dim=spec.get("cond"), negative_slope=spec.get("slope"), **kw)
        if spec.get("cond") is None:
            # 0.01 * normal initialisation is almost the identity: start from a visibly non-trivial state
            leaf = eqx.tree_at(lambda p: p.params, leaf, leaf.params * 60.0)
        if spec.get("w0"):
            # weight vector exactly zero (e.g. a zero-initialised last conditioner layer): a valid, reachable state
            if spec.get("cond") is None:
                leaf = eqx.tree_at(lambda p: p.params, leaf, leaf.params.at[: spec["dim"]].set(0.0))
            else:
                last = leaf.conditioner.layers[-1]
                leaf = eqx.tree_at(lambda p: (p.conditioner.layers[-1].weight, p.conditioner.layers[-1].bias), leaf,
                                   (jnp.zeros_like(last.weight), jnp.zeros_like(last.bias).at[spec["dim"]:].set(0.3)))
            return leaf  # not perturbed: the point of this state is w == 0 exactly
    elif k in ("Coupling", "MAF"):
        tr = transformer(spec.get("tr", "affine"))
        if k == "Coupling":
            leaf = B.Coupling(key(), transformer=tr, untransformed_dim=spec.get("u", spec["dim"] // 2), dim=spec["dim"],
                              cond_dim=spec.get("cond"), nn_width=spec.get("w", 4), nn_depth=spec.get("d", 1))
        else:
            leaf = B.MaskedAutoregressive(key(), transformer=tr, dim=spec["dim"], cond_dim=spec.get("cond"),
                                          nn_width=spec.get("w", 4), nn_depth=spec.get("d", 1))
    elif k == "BNAF":
        kw = {}
        if spec.get("act") == "callable":
            kw["activation"] = _leaky_callable
        if spec.get("act") == "module":  # a callable eqx.Module WITH a trainable array: its value after training / deserialisation is what counts
            kw["activation"] = _act_module()(jnp.asarray(0.4) + 0.1 * sf)
        leaf = B.BlockAutoregressiveNetwork(key(), dim=spec["dim"], cond_dim=spec.get("cond"), depth=spec.get("depth", 1),
                                            block_dim=spec.get("bd", 2), **kw)
    if leaf is not None:
        out = _perturb(leaf, level, sf)
        return LEAF_HOOK(out) if LEAF_HOOK is not None else out

    # ---- combinators
    def sub(i, s):
        return build(s, child_salt(salt, i), level, seed)

    if k == "Invert":
        return B.Invert(sub(0, spec["c"]))
    if k == "Chain":
        return B.Chain([sub(i, c) for i, c in enumerate(spec["c"])])
    if k == "Scan":
        salts = child_salt(salt, 0) * 5 + jnp.arange(spec["n"], dtype=jnp.int32)
        return B.Scan(eqx.filter_vmap(lambda s: build(spec["c"], s, level, seed))(salts))
    if k == "Vmap":
        ca = spec.get("cond_axis")
        if spec["mode"] == "broadcast":
            return B.Vmap(sub(0, spec["c"]), axis_size=spec["n"], in_axes_condition=ca)
        if spec["mode"] == "mapped":
            salts = child_salt(salt, 0) * 5 + jnp.arange(spec["n"], dtype=jnp.int32)
            stacked = eqx.filter_vmap(lambda s: build(spec["c"], s, level, seed))(salts)
            return B.Vmap(stacked, in_axes=eqx.if_array(0), in_axes_condition=ca)
        if spec["mode"] == "mixed":  # the documented fine-grained example: global scale, element-wise loc
            import jax.tree_util as jtu

            from flowjax.wrappers import unwrap

            assert spec["c"]["k"] == "Affine" and tuple(spec["c"]["shape"]) == ()
            a = sub(0, spec["c"])
            a = eqx.tree_at(lambda b: b.loc, a, 0.9 * _pat(spec["n"], sf, 1.9))
            in_axes = jtu.tree_map(lambda _: None, unwrap(a))
            in_axes = eqx.tree_at(lambda b: b.loc, in_axes, 0, is_leaf=lambda x: x is None)
            return B.Vmap(a, in_axes=in_axes, in_axes_condition=ca)
        if spec["mode"] == "axis1":  # parameters mapped along a NON-leading axis (in_axes=if_array(1)), non-square
            assert spec["c"]["k"] == "Affine" and len(spec["c"]["shape"]) == 1
            d_, n_ = spec["c"]["shape"][0], spec["n"]
            a = sub(0, spec["c"])
            loc = (0.8 * _pat(d_ * n_, sf, 1.4)).reshape(d_, n_)
            raw = (0.3 + 0.9 * _pat(d_ * n_, sf + 2, 2.2)).reshape(d_, n_)
            a = eqx.tree_at(lambda b: b.loc, a, loc)
            a = eqx.tree_at(lambda b: b.scale.arr, a, raw)
            return B.Vmap(a, in_axes=eqx.if_array(1), in_axes_condition=ca)
        raise KeyError(spec["mode"])
    if k == "Concatenate":
        return B.Concatenate([sub(i, c) for i, c in enumerate(spec["c"])], axis=spec["axis"])
    if k == "Stack":
        return B.Stack([sub(i, c) for i, c in enumerate(spec["c"])], axis=spec["axis"])
    if k == "Partial":
        idx = make_index(spec["idx"])
        if isinstance(idx, np.ndarray) and spec["idx"]["t"] != "npboolarr":  # "npboolarr": the mask is handed over as a NumPy array
            idx = jnp.asarray(idx)
        elif isinstance(idx, tuple):
            idx = tuple(jnp.asarray(i) if isinstance(i, np.ndarray) else i for i in idx)
        return B.Partial(sub(0, spec["c"]), idx, T(spec["shape"]))
    if k == "Reshape":
        return B.Reshape(sub(0, spec["c"]), T(spec.get("shape")), T(spec.get("cond")))
    if k == "Embed":
        ci = info(spec["c"])
        net = _cond_map(ci.cond_shape, T(spec["raw"]), sf + 5)
        return B.EmbedCondition(sub(0, spec["c"]), net, T(spec["raw"]))
    raise KeyError(k)


_ACT = {}


def _act_module():
    """One class for the whole process (a class per call would make serialisation round trips structurally different)."""
    if "cls" not in _ACT:
        import equinox as eqx
        import jax
        import jax.numpy as jnp

        class ParamActivation(eqx.Module):
            a: jax.Array

            def __call__(self, x):
                return x + jax.nn.sigmoid(self.a) * jnp.tanh(x)  # strictly increasing, R -> R, for every value of a

        _ACT["cls"] = ParamActivation
    return _ACT["cls"]


def _leaky_callable(x):
    import jax.numpy as jnp

    return jnp.where(x < 0, 0.3 * x, x) + 0.5 * jnp.tanh(x)


def transformer(name):
    import flowjax.bijections as B
    from flowjax.flows import _affine_with_min_scale

    if name == "affine":
        return B.Affine()
    if name == "minscale":
        return _affine_with_min_scale()
    if name == "rqs":
        return B.RationalQuadraticSpline(knots=3, interval=2)
    raise KeyError(name)


# ----------------------------------------------------------------------------- enumeration
def L(k, **kw):
    return {"k": k, **kw}


def ew_leaves(shape):
    """Element-wise / shape-generic leaves for a given shape."""
    s = list(shape)
    out = [L("Affine", shape=s), L("AffineNeg", shape=s), L("Loc", shape=s), L("Scale", shape=s), L("Exp", shape=s),
           L("SoftPlus", shape=s), L("Tanh", shape=s), L("LeakyTanh", shape=s, max_val=0.5),
           L("LeakyTanh", shape=s, max_val=3), L("Flip", shape=s), L("Identity", shape=s)]
    return out


def perms_for(shape, all_small=True):
    n = prod(shape)
    if n <= 1:
        return [list(range(n))]
    if n <= 3 and all_small:
        return [list(p) for p in itertools.permutations(range(n))]
    # a fixed non-involutive permutation (a single n-cycle shifted by 2 where possible)
    p = [(i * 1 + 2) % n for i in range(n)] if n > 2 else [1, 0]
    q = list(range(n))
    q = q[1:] + q[:1]
    return [p if sorted(p) == list(range(n)) else q, q[::-1][1:] + q[::-1][:1]]


def all_leaves(tier="thorough"):
    """Every leaf configuration of the grammar (DESIGN 2.2)."""
    out = []
    for s in LATTICE:
        out += ew_leaves(s)
        if s != ():
            out.append(L("Affine", shape=list(s), bscale=True))
        for p in perms_for(s):
            out.append(L("Permute", shape=list(s), perm=p))
        for cs in [(), (2,), (2, 3)]:
            out.append(L("AddCond", shape=list(s), cond=list(cs)))
    for d in (1, 2, 3):
        for lower in (True, False):
            out.append(L("TriAffine", dim=d, lower=lower))
    for knots in (1, 3):
        for iv in (2, [-1, 3], [1, 5]):
            out.append(L("RQS", knots=knots, interval=iv))
    for d in (1, 2, 3):
        for cond in (None, 2):
            for slope in (None, 0.1, 1.0, 3.0):  # 'a positive float': slopes above one need the scaled constraint
                out.append(L("Planar", dim=d, cond=cond, slope=slope))
    for d in (2, 3):
        for cond in (None, 2):
            for tr in ("affine", "minscale", "rqs"):
                out.append(L("Coupling", dim=d, cond=cond, tr=tr))
    for d in (1, 2, 3):
        for cond in (None, 2):
            for tr in ("affine", "minscale", "rqs"):
                out.append(L("MAF", dim=d, cond=cond, tr=tr))
    for d in (1, 2):
        for cond in (None, 2):
            for depth in (0, 1, 2):
                for bd in (1, 2):
                    out.append(L("BNAF", dim=d, cond=cond, depth=depth, bd=bd))
    out.append(L("BNAF", dim=2, cond=None, depth=1, bd=2, act="callable"))
    out.append(L("BNAF", dim=2, cond=None, depth=1, bd=2, act="module"))
    for cond in (None, 2):
        out.append(L("MAF", dim=3, cond=cond, tr="affine", d=0))
        out.append(L("MAF", dim=2, cond=cond, tr="rqs", d=0))
        out.append(L("Coupling", dim=3, cond=cond, tr="affine", d=0))
    return out


def rep_leaves():
    """One representative per behaviour class (quick tier / deeper levels)."""
    return [
        L("Affine", shape=[2]), L("AffineNeg", shape=[3]), L("TriAffine", dim=3, lower=True),
        L("Exp", shape=[2]), L("LeakyTanh", shape=[2], max_val=0.5), L("Permute", shape=[2, 3], perm=[2, 0, 5, 1, 3, 4]),
        L("RQS", knots=3, interval=[-1, 3]), L("Planar", dim=2, cond=None, slope=0.1),
        L("Coupling", dim=3, cond=2, tr="affine"), L("MAF", dim=2, cond=None, tr="rqs"),
        L("AddCond", shape=[2], cond=[2]), L("Tanh", shape=[3]), L("Scale", shape=[2, 3]), L("SoftPlus", shape=[]),
        L("Affine", shape=[]), L("MAF", dim=3, cond=2, tr="minscale"), L("Planar", dim=3, cond=2, slope=None),
        L("BNAF", dim=2, cond=None, depth=1, bd=2), L("Loc", shape=[2, 1, 2]), L("AddCond", shape=[2, 3], cond=[]),
        L("Affine", shape=[3], bscale=True), L("Exp", shape=[1]),
        L("BNAF", dim=2, cond=2, depth=2, bd=2),  # conditional AND >= 2 hidden layers: the two copies of the layer loop must agree
        L("Planar", dim=2, cond=None, slope=3.0),  # leaky slope above one (finding 12)
        L("BNAF", dim=2, cond=None, depth=1, bd=2, act="module"),  # activation = callable module with its own trainable array
        L("MAF", dim=3, cond=None, tr="affine", d=0),  # linear conditioner (no hidden layer): the single layer is first AND last
    ]


def _well(spec):
    try:
        return info(spec)
    except IllTyped:
        return None


def partial_indices(child_shape):
    """(parent shape, index spec) pairs whose selection has exactly child_shape; every index kind."""
    cs = tuple(child_shape)
    out = []
    if cs == ():
        out += [((3,), {"t": "int", "v": 1}), ((3,), {"t": "int", "v": -1}),
                ((2, 3), {"t": "tuple", "v": [{"t": "int", "v": 1}, {"t": "int", "v": 0}]})]
    if len(cs) == 1:
        n = cs[0]
        out += [((n + 2,), {"t": "slice", "v": [1, n + 1, None]}), ((n + 2,), {"t": "slice", "v": [None, n, None]}),
                ((n + 2,), {"t": "intarr", "v": list(range(n + 1, 1, -1))[:n]}),
                ((n + 2,), {"t": "boolarr", "v": [True] * n + [False, False]}),
                ((n + 1,), {"t": "boolarr", "v": [False] + [True] * n}),
                ((n + 1,), {"t": "npboolarr", "v": [True] * n + [False]}),
                ((2, n), {"t": "int", "v": 1}), ((2, n), {"t": "int", "v": -2}),
                ((n, 2), {"t": "tuple", "v": [{"t": "slice", "v": [None, None, None]}, {"t": "int", "v": 1}]}),
                ((n, 2), {"t": "tuple", "v": [{"t": "ellipsis"}, {"t": "int", "v": 0}]}),
                ((2 * n,), {"t": "slice", "v": [None, None, 2]})]
    if len(cs) == 2:
        a, b = cs
        out += [((2, a, b), {"t": "int", "v": 0}), ((a + 1, b), {"t": "slice", "v": [1, None, None]}),
                ((a, b + 1), {"t": "tuple", "v": [{"t": "slice", "v": [None, None, None]}, {"t": "slice", "v": [None, b, None]}]}),
                ((a + 1, b), {"t": "intarr", "v": list(range(a, 0, -1))})]
    if len(cs) == 3:
        out += [((2, *cs), {"t": "int", "v": 1})]
    return out


def unary_over(c, ci: Info, tier):
    """All well-typed unary combinator applications over child spec c."""
    out = [L("Invert", c=c)]
    r = len(ci.shape)
    # Vmap broadcast, all condition axes
    cond_axes = [None]
    if ci.cond_shape is not None:
        rc = len(ci.cond_shape)
        cond_axes += list(range(0, rc + 1)) + list(range(-1, -(rc + 1) - 1, -1))
    for ca in cond_axes:
        # n = 3 differs from every condition axis size (2) used by the grammar: a misplaced axis cannot coincide
        out.append(L("Vmap", c=c, mode="broadcast", n=2 if ca is None else 3, cond_axis=ca))
    out.append(L("Vmap", c=c, mode="broadcast", n=3, cond_axis=None))
    if _vmappable(c):
        for ca in cond_axes[:3]:
            out.append(L("Vmap", c=c, mode="mapped", n=2 if ca is None else 3, cond_axis=ca))
        for n in (1, 2, 3):
            s = L("Scan", c=c, n=n)
            if _well(s):
                out.append(s)
    for ps, ix in partial_indices(ci.shape):
        out.append(L("Partial", c=c, idx=ix, shape=list(ps)))
    # Reshape: every factorisation of the element count into <=3 axes of the lattice sizes
    n = prod(ci.shape)
    for s in _factorizations(n):
        if s != ci.shape:
            out.append(L("Reshape", c=c, shape=list(s)))
    if ci.cond_shape is not None and prod(ci.cond_shape) > 1:
        out.append(L("Reshape", c=c, shape=None, cond=[prod(ci.cond_shape)] if len(ci.cond_shape) > 1 else [1, prod(ci.cond_shape)]))
    if ci.cond_shape is not None:
        out.append(L("Embed", c=c, raw=[3]))
        out.append(L("Embed", c=c, raw=[]))
    return [s for s in out if _well(s)]


def _factorizations(n):
    out = set()
    for a in range(1, n + 1):
        if n % a:
            continue
        out.add((n,))
        out.add((a, n // a))
        for b in range(1, n // a + 1):
            if (n // a) % b == 0:
                out.add((a, b, n // a // b))
    if n == 1:
        out.add(())
    return sorted(s for s in out if len(s) <= 3 and all(d <= 6 for d in s))


def _vmappable(c):
    """Children whose construction can run under eqx.filter_vmap (no concrete-value checks on arrays)."""
    k = c["k"]
    if k in ("Permute", "Exp", "SoftPlus", "Tanh", "LeakyTanh", "Flip", "Identity"):
        return False  # Permute checks concrete values; the others have no array leaf to add an axis to
    if k == "Partial":
        return False
    if k in ("Chain", "Concatenate", "Stack"):
        return all(_vmappable(x) for x in c["c"])
    if "c" in c and isinstance(c["c"], dict):
        return _vmappable(c["c"]) and k not in ("Vmap", "Scan")
    return True


def nary_over(pool, tier, max_chain=2):
    """Chain / Concatenate / Stack over every compatible tuple from pool (list of (spec, Info))."""
    out = []
    by_shape = {}
    for c, ci in pool:
        by_shape.setdefault(ci.shape, []).append((c, ci))
    for shape, items in by_shape.items():
        for k in range(2, max_chain + 1):
            for combo in itertools.product(items, repeat=k):
                s = L("Chain", c=[c for c, _ in combo])
                if _well(s):
                    out.append(s)
        r = len(shape)
        for (ia, (a, ai)), (ib, (b, bi)) in itertools.product(enumerate(items), repeat=2):
            if tier == "quick" and ib != (ia + 1) % len(items):
                continue  # quick: each child paired with its (cyclic) neighbour of the same shape - distinct children expose a swap
            for ax in range(-(r + 1), r + 1):
                s = L("Stack", c=[a, b], axis=ax)
                if _well(s):
                    out.append(s)
    # Concatenate: shapes equal except along axis
    nxt = {}
    if tier == "quick":  # neighbour pairing among concatenation-compatible children (same rank)
        by_rank = {}
        for i, (c_, ci_) in enumerate(pool):
            by_rank.setdefault(len(ci_.shape), []).append(i)
        for idxs in by_rank.values():
            for j, i in enumerate(idxs):
                nxt[i] = {idxs[(j + 1) % len(idxs)], idxs[(j + 2) % len(idxs)]}
    for (ia, (a, ai)), (ib, (b, bi)) in itertools.product(enumerate(pool), repeat=2):
        if tier == "quick" and (ib not in nxt.get(ia, ()) or ia == ib):
            continue
        r = len(ai.shape)
        if r == 0 or len(bi.shape) != r:
            continue
        for ax in range(-r, r):
            s = L("Concatenate", c=[a, b], axis=ax)
            if _well(s):
                out.append(s)
    return out


def dedupe(specs):
    seen, out = set(), []
    for s in specs:
        k = canon(s)
        if k not in seen:
            seen.add(k)
            out.append(s)
    return out


def thin(specs, keep_every, salt=0):
    """Deterministic thinning used only where DESIGN states a deviation/pairwise bound (reported as a cap)."""
    return [s for i, s in enumerate(specs) if (i + salt) % keep_every == 0]


def companions(c, ci):
    """Binary combinators pairing expression c with simple partners of the same shape (both orders),
    an unconditional and a conditional partner (mixing conditional / unconditional children)."""
    s = list(ci.shape)
    partners = [L("Affine", shape=s), L("AddCond", shape=s, cond=list(ci.cond_shape) if ci.cond_shape is not None else [2])]
    out = []
    r = len(ci.shape)
    for p in partners:
        out += [L("Chain", c=[c, p]), L("Chain", c=[p, c])]
        for ax in range(-(r + 1), r + 1):
            out += [L("Stack", c=[c, p], axis=ax)]
        for ax in range(-r, r):
            out += [L("Concatenate", c=[p, c], axis=ax)]
    out.append(L("Chain", c=[c, L("Exp", shape=s)]))
    return [x for x in out if _well(x)]


D1_CORE_QUICK = 8


def enumerate_exprs(tier):
    """Returns (list of specs, description of the bound completed)."""
    reps = rep_leaves()
    leaves = reps if tier == "quick" else dedupe(reps + all_leaves())
    lv = [(c, info(c)) for c in leaves]
    d1 = []
    for c, ci in lv:
        d1 += unary_over(c, ci, tier)
        if tier != "quick":
            d1 += companions(c, ci)
    # n-ary at depth 1 over the representatives: every compatible ordered pair, every axis
    d1 += nary_over([(c, info(c)) for c in reps], tier, max_chain=2)
    if tier != "quick":
        d1 += [s for s in (L("Chain", c=[a, b, c]) for a, b, c in itertools.product(reps[:12], repeat=3)) if _well(s)]
    d1.append(L("Vmap", c=L("Affine", shape=[]), mode="mixed", n=3, cond_axis=None))
    d1.append(L("Vmap", c=L("Affine", shape=[2]), mode="axis1", n=5, cond_axis=None))
    d1 = dedupe(d1)
    if tier == "quick":
        d1 = _one_per_kind(d1)
    # depth 2: every unary combinator and the companion binaries over a core of depth-1 expressions
    # (one per combinator kind x semantic option; quick keeps the first D1_CORE_QUICK kinds round-robin)
    core = _one_per_kind(d1)
    core = _round_robin(core, D1_CORE_QUICK if tier == "quick" else 90)
    d2 = []
    for c in core:
        ci = info(c)
        d2 += unary_over(c, ci, tier) + companions(c, ci)
    d2 = dedupe(d2)
    if tier == "quick":
        d2 = _one_per_kind(d2)
    d3 = []
    if tier != "quick":
        core2 = _round_robin(_one_per_kind(d2), 36)
        for c in core2:
            ci = info(c)
            d3 += unary_over(c, ci, tier) + companions(c, ci)
        d3 = dedupe(d3)
    specs = dedupe(leaves + d1 + d2 + d3)
    desc = {"leaves": len(leaves), "depth1": len(d1), "depth2_core": len(core), "depth2": len(d2), "depth3": len(d3)}
    return specs, desc


def _round_robin(specs, n):
    """Pick n specs cycling over the top-level combinator kinds so that every kind is represented."""
    by = {}
    for s in specs:
        by.setdefault(s["k"], []).append(s)
    out, i = [], 0
    kinds = sorted(by)
    while len(out) < n and any(by.values()):
        k = kinds[i % len(kinds)]
        if by[k]:
            out.append(by[k].pop(0))
        i += 1
    return out


def _cls(c):
    k = c["k"]
    if "c" in c:
        ch = c["c"] if isinstance(c["c"], list) else [c["c"]]
        return k + "(" + ",".join(_cls(x) for x in ch) + ")"
    return k


def _one_per_class(specs):
    seen, out = set(), []
    for s in specs:
        key = (s["k"], info(s).shape, info(s).cond_shape is not None)
        if key not in seen:
            seen.add(key)
            out.append(s)
    return out


def _one_per_kind(specs):
    """One expression per (combinator kind + options that change semantics, child class)."""
    seen, out = set(), []
    for s in specs:
        opt = (s.get("mode"), s.get("axis"), s.get("cond_axis"), (s.get("idx") or {}).get("t"), s.get("n"))
        if s["k"] == "Reshape":  # the target rank (incl. the scalar target ()) is a semantic option of Reshape
            opt += (None if s.get("shape") is None else len(s["shape"]), None if s.get("cond") is None else len(s["cond"]))
        key = (_cls(s), opt, (s.get("act"), s.get("d")) if "c" not in s else None)  # a leaf with another activation kind / conditioner depth is another kind
        if key not in seen:
            seen.add(key)
            out.append(s)
    return out
