"""Run TLC on a model in /verif/models, dump the labelled state graph and parse it.

Exits loudly (RuntimeError -> harness error, exit 2) if TLC is missing, fails or reports an
invariant violation: the check never silently degrades to a Python-only leg."""
import os
import re
import shutil
import subprocess

ROOT = os.path.dirname(os.path.dirname(os.path.abspath(__file__)))


def _parse_value(s):
    s = s.strip()
    if s == "TRUE":
        return True
    if s == "FALSE":
        return False
    if s.startswith("<<"):
        inner = s[2:-2].strip()
        return [] if not inner else [_parse_value(p) for p in inner.split(",")]
    return int(s)


def run_tlc(module, constants, invariants, tag):
    """Returns (nodes: id -> {var: value}, edges: list[(src, dst, label)], stats)."""
    if shutil.which("tlc") is None:
        raise RuntimeError("tlc not on PATH")
    work = os.path.join(ROOT, ".scratch", f"tlc_{tag}_{os.getpid()}")
    shutil.rmtree(work, ignore_errors=True)
    os.makedirs(work)
    try:
        shutil.copy(os.path.join(ROOT, "models", module + ".tla"), work)
        with open(os.path.join(work, module + ".cfg"), "w") as f:
            for k, v in constants.items():
                f.write(f"CONSTANT {k} = {v}\n")
            f.write("INIT Init\nNEXT Next\n")
            for inv in invariants:
                f.write(f"INVARIANT {inv}\n")
        cmd = [
            "tlc", "-workers", "1", "-noGenerateSpecTE", "-deadlock",
            "-metadir", os.path.join(work, "meta"),
            "-dump", "dot,actionlabels", os.path.join(work, "out.dot"),
            module + ".tla",
        ]
        p = subprocess.run(cmd, cwd=work, capture_output=True, text=True, timeout=3600)
        out = p.stdout + p.stderr
        if "Model checking completed. No error has been found." not in out:
            raise RuntimeError("TLC did not verify the model:\n" + out[-3000:])
        m = re.search(r"(\d+) states generated, (\d+) distinct states found", out)
        stats = {"tlc_states_generated": int(m.group(1)), "tlc_distinct_states": int(m.group(2))}
        nodes, edges = {}, []
        node_re = re.compile(r'^(-?\d+) \[label="((?:[^"\\]|\\.)*)"')
        edge_re = re.compile(r'^(-?\d+) -> (-?\d+) \[label="([^"]*)"')
        with open(os.path.join(work, "out.dot")) as f:
            for line in f:
                line = line.strip()
                m = edge_re.match(line)
                if m:
                    edges.append((m.group(1), m.group(2), m.group(3)))
                    continue
                m = node_re.match(line)
                if m:
                    st = {}
                    for part in m.group(2).split("\\n"):
                        part = part.strip()
                        if part.startswith("/\\\\"):
                            part = part[3:].strip()
                        elif part.startswith("/\\"):
                            part = part[2:].strip()
                        if not part:
                            continue
                        k, v = part.split("=", 1)
                        st[k.strip()] = _parse_value(v)
                    nodes[m.group(1)] = st
        if len(nodes) != stats["tlc_distinct_states"]:
            raise RuntimeError(
                f"parsed {len(nodes)} nodes but TLC reports {stats['tlc_distinct_states']} distinct states"
            )
        stats["tlc_edges"] = len(edges)
        stats["tlc_invariants"] = list(invariants)
        return nodes, edges, stats
    finally:
        shutil.rmtree(work, ignore_errors=True)


def maximal_paths(nodes, edges):
    """All root-to-leaf paths of a forest-shaped state graph (asserted), as lists of node ids."""
    parent, out = {}, {n: 0 for n in nodes}
    for s, d, _ in edges:
        if s == d:
            continue
        if d in parent and parent[d] != s:
            raise RuntimeError("state graph is not a forest (history must be part of the state)")
        parent[d] = s
        out[s] += 1
    paths = []
    for n in nodes:
        if out[n] == 0:
            p = [n]
            while p[-1] in parent:
                p.append(parent[p[-1]])
            paths.append(p[::-1])
    return paths
