"""Developer tool: the first N cases of every thorough tier (catches crashes in thorough-only code paths without paying for the
whole tier).   python3 mc/thoroughsmoke.py [N]"""
import subprocess
import sys
import time

n = sys.argv[1] if len(sys.argv) > 1 else "48"
bad = []
for i in range(1, 19):
    c = f"C{i:02d}"
    t0 = time.time()
    p = subprocess.run(["/venv/bin/python", "-m", "mc.run", c, "--tier", "thorough", "--limit", n], capture_output=True, text=True)
    lines = (p.stdout + p.stderr).strip().splitlines()
    print(f"{c} exit={p.returncode} wall={time.time() - t0:.0f}s :: {lines[-1] if lines else ''}", flush=True)
    if p.returncode != 0:
        bad.append(c)
        for l in lines:
            if l.startswith("  violation") or "HARNESS" in l or "Error" in l:
                print("    " + l[:500], flush=True)
print("NONZERO:", bad)
