"""Bounded-exhaustive explicit-state exploration machinery for flowjax (see DESIGN.md)."""
