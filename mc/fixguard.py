"""Developer tool (never part of a registered command): every `fix:` commit of /repo must stay guarded.

  python3 mc/fixguard.py [<sha> ...]
For each fix commit recorded in known_findings.json (status=fixed) the commit is reverted in a scratch worktree of /repo
HEAD (MC_REPO), the quick tier of the owning property's check is run against it and must exit 1. /repo is never touched."""
import json
import os
import subprocess
import sys

PY = "/venv/bin/python"


def sh(cmd, **kw):
    return subprocess.run(cmd, shell=isinstance(cmd, str), capture_output=True, text=True, **kw)


def main():
    want = set(sys.argv[1:])
    findings = [f for f in json.load(open("/verif/known_findings.json"))["findings"] if f.get("status") == "fixed"]
    out = {}
    for f in findings:
        sha, prop = f["commit"], f["property"]
        if want and sha not in want:
            continue
        wt = f"/tmp/fg_{sha}"
        sh(f"git -C /repo worktree remove --force {wt}")
        assert sh(f"git -C /repo worktree add -q --detach {wt} HEAD").returncode == 0
        try:
            patch = sh(f"git -C /repo show {sha} --format= -- flowjax").stdout
            r = subprocess.run(f"git -C {wt} apply -R --3way -", shell=True, input=patch, capture_output=True, text=True)
            if r.returncode != 0:
                out[sha] = {"property": prop, "reverted": False, "error": r.stderr[-300:]}
                continue
            p = sh([PY, "-m", "mc.run", prop, "--tier", "quick"], cwd="/verif", env=dict(os.environ, MC_REPO=wt, PYTHONPATH=wt), timeout=3600)
            lines = p.stdout.strip().splitlines()
            out[sha] = {"property": prop, "reverted": True, "exit": p.returncode, "guarded": p.returncode == 1,
                        "summary": lines[-1] if lines else "", "first": [l[:260] for l in lines if l.startswith("  violation")][:2]}
        finally:
            sh(f"git -C /repo worktree remove --force {wt}")
        print(sha, json.dumps(out[sha])[:700], flush=True)
    print("UNGUARDED:", [s for s, o in out.items() if not o.get("guarded")])


if __name__ == "__main__":
    main()
