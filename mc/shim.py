"""Process-level environment set-up. Must be imported before jax.

* one XLA thread per worker (parallelism comes from the process pool),
* x64 on/off from MC_X64 (process global in JAX, so dtypes run in separate workers),
* the harness-side Equinox shim of DESIGN.md section 2.7.
"""
import os
import sys
import warnings

_DONE = False


def setup(x64: bool | None = None):
    global _DONE
    if _DONE:
        return
    _DONE = True
    if x64 is None:
        x64 = os.environ.get("MC_X64", "1") == "1"
    os.environ.setdefault("PYTHONHASHSEED", "0")
    os.environ["JAX_PLATFORMS"] = "cpu"
    flags = os.environ.get("XLA_FLAGS", "")
    if "xla_cpu_multi_thread_eigen" not in flags:
        os.environ["XLA_FLAGS"] = (
            flags + " --xla_cpu_multi_thread_eigen=false intra_op_parallelism_threads=1"
        ).strip()
    os.environ.setdefault("OMP_NUM_THREADS", "1")
    os.environ.setdefault("OPENBLAS_NUM_THREADS", "1")
    os.environ["JAX_ENABLE_X64"] = "1" if x64 else "0"
    # The checks always exercise /repo's working tree.
    repo = os.environ.get("MC_REPO", "/repo")  # developer override: a scratch worktree holding a seeded change
    if repo not in sys.path:
        sys.path.insert(0, repo)
    warnings.filterwarnings("ignore")
    import jax

    jax.config.update("jax_enable_x64", bool(x64))
    # OFF by default: XLA:CPU's persistent cache proved unreliable here (sporadic "Failed to materialize symbols"
    # / segfaults when cached single-op kernels with identical symbol names are loaded into one process); a
    # developer may opt in with MC_JAX_CACHE=<dir> for local iteration, never for registered commands.
    cache = os.environ.get("MC_JAX_CACHE", "")
    if cache in ("0", "off"):
        cache = ""
    if cache:
        # persistent XLA compilation cache (keyed by the HLO, so edits to /repo never hit stale entries):
        # the 16 workers stop recompiling the same small kernels
        os.makedirs(cache, exist_ok=True)
        jax.config.update("jax_compilation_cache_dir", cache)
        jax.config.update("jax_persistent_cache_min_compile_time_secs", 0.0)
        jax.config.update("jax_persistent_cache_min_entry_size_bytes", -1)
        _atomic_cache_writes()
    _equinox_shim()


def _atomic_cache_writes():
    """jax's file cache writes entries with a plain write_bytes; with 16 workers sharing the directory a reader
    can see a half-written executable and crash while deserialising it. Write to a temp file and rename."""
    try:
        import os as _os

        from jax._src import lru_cache

        def put(self, key, value):
            if not key:
                raise ValueError("key cannot be empty")
            cache_path = self.path / f"{key}{lru_cache._CACHE_SUFFIX}"
            if cache_path.exists():
                return
            tmp = self.path / f".tmp-{_os.getpid()}-{key}"
            tmp.write_bytes(value)
            _os.replace(tmp, cache_path)

        lru_cache.LRUCache.put = put
    except Exception:  # pragma: no cover
        import jax

        jax.config.update("jax_compilation_cache_dir", None)


def _equinox_shim():
    """equinox 0.13.8 x jax 0.11.2: `field(init=False)` warning path calls
    ``is_inexact_array_like`` which touches ``Tracer.__jax_array__`` (None) under vmap and
    raises TypeError, making the BNAF / triangular-spline factories un-constructible.
    Replace that helper (as imported in equinox._module._module) by one which ignores a
    non-callable ``__jax_array__``. No flowjax code and no numerical path is touched."""
    try:
        import equinox._module._module as m
        import jax
        import jax.numpy as jnp
        import numpy as np

        if not hasattr(m, "is_inexact_array_like"):
            return

        def is_inexact_array_like(element):
            if hasattr(element, "__jax_array__") and callable(
                getattr(element, "__jax_array__", None)
            ):
                element = element.__jax_array__()
            if isinstance(element, (jax.Array, np.ndarray, np.generic)):
                return jnp.issubdtype(element.dtype, jnp.inexact)
            return isinstance(element, (float, complex))

        m.is_inexact_array_like = is_inexact_array_like
    except Exception:  # pragma: no cover - the shim is best effort
        pass


def is_x64() -> bool:
    import jax

    return bool(jax.config.jax_enable_x64)
