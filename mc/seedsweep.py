"""Developer tool: quick tier of every check under several VERIF_SEED values (run from a `vp run` snapshot so the
committed evidence is not touched).   python3 mc/seedsweep.py <seed> [<seed> ...] [--only C01,C02] [--tier quick]"""
import os
import subprocess
import sys
import time

PY = "/venv/bin/python"
ALL = [f"C{i:02d}" for i in range(1, 19)]


def main():
    args = sys.argv[1:]
    only, tier = ALL, "quick"
    if "--only" in args:
        i = args.index("--only")
        only = args[i + 1].split(",")
        del args[i:i + 2]
    if "--tier" in args:
        i = args.index("--tier")
        tier = args[i + 1]
        del args[i:i + 2]
    bad = []
    for seed in [int(a) for a in args]:
        for c in only:
            t0 = time.time()
            p = subprocess.run([PY, "-m", "mc.run", c, "--tier", tier], env=dict(os.environ, VERIF_SEED=str(seed)), capture_output=True, text=True)
            lines = (p.stdout + p.stderr).strip().splitlines()
            summ = lines[-1] if lines else ""
            print(f"seed={seed} {c} exit={p.returncode} wall={time.time() - t0:.0f}s :: {summ}", flush=True)
            if p.returncode != 0:
                bad.append((seed, c))
                for l in lines:
                    if l.startswith("  violation") or "HARNESS" in l or "Traceback" in l:
                        print("    " + l[:600], flush=True)
    print("NONZERO:", bad)


if __name__ == "__main__":
    main()
