"""Developer tool: apply a textual mutation to /repo, run a check, revert.
usage: python3 mc/mutate.py <file under /repo> <old> <new> -- <check args...>"""
import subprocess
import sys

def main():
    i = sys.argv.index("--")
    path, old, new = sys.argv[1:i]
    args = sys.argv[i + 1:]
    p = "/repo/" + path
    s = open(p).read()
    assert s.count(old) >= 1, "pattern not found"
    open(p, "w").write(s.replace(old, new, 1))
    try:
        r = subprocess.run(["/venv/bin/python", "-m", "mc.run", *args], cwd="/verif", capture_output=True, text=True)
        lines = r.stdout.strip().splitlines()
        for l in lines[:6] + lines[-3:]:
            print(l[:300])
        print("exit", r.returncode)
    finally:
        subprocess.run(["git", "-C", "/repo", "checkout", "--", path])

main()
