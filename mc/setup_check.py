"""MANIFEST.setup_cmd: validate the toolchain only; nothing is compiled or fetched."""
import shutil
import sys


def main():
    sys.path.insert(0, "/repo")
    import equinox  # noqa: F401
    import jax  # noqa: F401
    import jsonschema  # noqa: F401
    import optax  # noqa: F401
    import scipy  # noqa: F401

    import flowjax

    assert flowjax.__file__.startswith("/repo/"), flowjax.__file__
    if shutil.which("tlc") is None:
        print("setup: tlc missing", file=sys.stderr)
        return 1
    print("setup ok: jax", jax.__version__, "flowjax from", flowjax.__file__)
    return 0


if __name__ == "__main__":
    sys.exit(main())
