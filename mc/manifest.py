"""Regenerates /verif/MANIFEST.json from the table below (python3 mc/manifest.py)."""
import json
import os

ROOT = os.path.dirname(os.path.dirname(os.path.abspath(__file__)))
PY = "/venv/bin/python"

# id -> (technique, level text, level note, design ref)
CHECKS = {
    "C16": (
        "explicit-state enumeration of all loss orderings on the real loops + TLC-verified TLA+ models with every maximal path replayed on the implementation (distinct losses: equality with the model; losses with ties and +inf: trace inclusion in a non-deterministic model)",
        "Every permutation of distinct losses up to length L (quick 4, thorough 6), every max_patience, return_best and 1-3 batches per epoch is run through the real fit_to_data / fit_to_variational_target with a scripted loss and counting optimiser and compared with a reference of the documented behaviour; independently TLC verifies the protocol invariants on models/EarlyStop.tla and models/VarFit.tla and all maximal paths of the dumped state graph are replayed against the real loops. Losses with ties (and +inf): models/EarlyStopTies.tla and models/VarFitTies.tla are non-deterministic exactly where the statement is ambiguous (one reading of 'since the best loss' per run; any arg-min as best); TLC verifies the tie-aware invariants and the real loops, run on every loss word over 1..3 of length <= L (quick 5, thorough 6), must exhibit one of the model's behaviours for that word.",
        "Bounded history length; NaN losses not enumerated; optimiser/loss are user-supplied extension points (no source hooks); TLC trusted.",
        "DESIGN.md section 3 C16, section 4",
    ),
}

GRAMMAR_NOTE = "Bounded: grammar depth/leaf sets, parameter levels and alphabets listed in evidence.coverage.bounds; float tolerances are derived (DESIGN 2.5) not proved; JAX autodiff trusted as Jacobian oracle."
CHECKS.update({
    "C01": (
        "bounded-exhaustive enumeration of a typed grammar of bijection expressions (BFS by depth, canonical-form dedup) x parameter levels x boundary-directed input alphabet, executed on the real objects",
        "Every well-typed expression tree up to the depth bound (quick: 20 representative leaves, depth<=2, ~1.5k trees; thorough: all leaf configurations, depth<=3, ~15k trees), plus the bijection of every flow factory, is built for real and round-tripped in both directions (domain->codomain->domain, codomain->domain->codomain, image points) at every parameter level, condition and alphabet input (interval ends, knots, +-max_val, their float neighbours, magnitudes to 1e4), with conditioning-scaled tolerances from the autodiff Jacobian; plain and and-log-det points are compared. BlockAutoregressiveNetworks (dim 1-3, depth 1-2, conditional or not) with an AutoregressiveBisectionInverter configured with tol in {1e-2,1e-3,1e-5} and two brackets must come back within the configured tolerance propagated through the triangular Jacobian.",
        GRAMMAR_NOTE, "DESIGN.md section 3 C01"),
    "C02": (
        "same exhaustive grammar exploration; oracle = slogdet of the autodiff Jacobian of the plain method (one-sided set at kinks)",
        "For every enumerated expression, non-initial parameter level, condition and alphabet input the reported forward and inverse log-determinants are compared with slogdet(jacfwd(plain transform / inverse)), an oracle sharing nothing with the hand-written formulas; scalar shape of the log-det is checked.",
        GRAMMAR_NOTE + " Saturated points (singular value < 1e-5) are skipped and counted.", "DESIGN.md section 3 C02"),
    "C08": (
        "exhaustive grammar exploration against a reference interpreter of the combinator definitions",
        "Every combinator expression up to the depth bound, with every valid axis (negative included), every Partial index kind and mixed conditional/unconditional children, is compared method by method (4 methods + log-det) with a ~150-line interpreter that implements Chain/Scan/Vmap/Concatenate/Stack/Partial/Invert/Reshape/EmbedCondition by their definitions in NumPy over the children's own methods; declared shape/cond_shape are compared with NumPy's shape calculus; merge_chains, indexing, slicing and iteration must not change the function; merge_transforms is checked on every nesting of 2-5 levels over four non-commuting bijections and two bases; every expression with a real domain is also evaluated on int32 / float32 / float16 arrays against the same values as float64.",
        GRAMMAR_NOTE, "DESIGN.md section 3 C08"),
    "C10": (
        "explicit enumeration of the bisection state machine's inputs (function family x root position x interval x tol x max_iter x dtype) on the real inverter, plus a traced leg under jax.disable_jit recording every evaluation point",
        "All ~100k combinations of 8 increasing function shapes, 3 slopes, 13 root positions (inside, on either end, one ulp outside, 3/pi widths and 1e6 away on both sides, exact-midpoint and dyadic), 4 initial intervals, 8 tolerances, 5 max_iter values and 2 dtypes are solved by the real AutoregressiveBisectionInverter and judged against the outcome-level error bound; 1200 searches run un-jitted with the while_loops as Python loops and an evaluation horizon; triangular maps of dimension 1-6 with coupling and real BlockAutoregressiveNetworks are inverted end to end with the propagated bound; two function kinds have values so small / large that products of two of them under / overflow; max_iter is also left at its default.",
        "Function family and bounds as listed in evidence; error bound assumes a doubling expansion (factor-2 slack).", "DESIGN.md section 3 C10"),
    "C15": (
        "exhaustive enumeration of (n, batch_size, val_prop, condition, epochs) with the complete call history of the real fit_to_data observed through the user-supplied loss and optimiser",
        "Every dataset size n (quick 2..20, thorough 2..60), every batch_size 1..n+5, 7 validation proportions, with/without condition, 1-4 epochs is run through the real fit_to_data on index-tagged rows; the recorded history of every loss call (rows, condition rows, key, train/validation, update marks) is judged: partition, pairing, no duplicates, only a trailing remainder dropped, no validation row in a gradient step, fresh keys, reproducibility; integer-typed datasets (ids above 2**24) must reach the loss with their dtype and exact pairing.",
        "Split sizes read from train_val_split and only required to be sane; a traced loss call is a training step.", "DESIGN.md section 3 C15"),
})

CHECKS.update({
    "C03": ("exhaustive enumeration of (base distribution x bijection expression | factory | nested transform) with each evaluation path compared with its definition over public members",
            "For every base kind (StandardNormal, Normal, StudentT, Uniform, a conditional base), every enumerated bijection expression, every factory (8 configs x invert x conditional) and nested transforms, log_prob / sample / sample_and_log_prob are compared with base.log_prob(inverse)+inverse log-det, transform(base sample for the same key) and log_prob(sample); merge_transforms must leave all three unchanged. Every constant the expression's formulas compare against is used as a data point; an inverse image outside a box-supported base must give exactly -inf (decided from the inverse image, not from the base's public log_prob) and a NaN inverse image of an image point is a violation.",
            GRAMMAR_NOTE, "DESIGN.md section 3 C03"),
    "C04": ("exhaustive enumeration of architectures/orientations/conditions with deterministic quadrature of the density and a fixed-key goodness-of-fit of the sampler against the same quadrature",
            "Every factory configuration (x invert x conditional x conditions) and 15 hand-built 1-D transformed distributions are integrated by trapezoid quadrature on a tail-covering sinh-spaced grid at two resolutions (mass = 1) and a fixed-key batch of 2e5 samples is compared with the quadrature's cdf / cell masses (Kolmogorov / chi-square, a-priori false alarm < 1e-9).",
            "Bounds discrepancy by quadrature resolution and the power of 2e5 draws; unresolved states are reported as skipped, never passed.", "DESIGN.md section 3 C04"),
    "C05": ("exhaustive enumeration of family x parameter-shape pairing x value grid x evaluation points against scipy.stats",
            "All 10 families, MultivariateNormal, StandardNormal and mixtures over every broadcast pairing of parameter shapes, a value grid (loc, scale, df, rate) and evaluation points inside, on the edge of and outside the support are compared with scipy.stats log-densities; accessors must reproduce constructor arguments; fixed-key samplers are compared with the scipy cdf (DKW bound, alpha 1e-9); mixtures must equal the weight-normalised sum and be invariant to rescaling, also after every trainable leaf has been moved (the implied component weights, recovered from the density by least squares, must be positive and sum to one); every family is also compared at trained states with the textbook density of its accessor-reported parameters, at points whose coordinates lie on different sides of the support, and with scales / rates down to 1e-6 through the accessors in both dtypes.",
            "scipy.stats float64 is the textbook reference; edge-of-support density convention not judged.", "DESIGN.md section 3 C05"),
    "C06": ("exhaustive enumeration of event shape x condition shape x all broadcasting batch-shape pairs x sample shapes, each element compared with the unbatched call",
            "For event and condition shapes of rank 0-2 (incl. scalar/scalar), every pair of leading batch shapes that broadcasts and every sample_shape, batched log_prob / sample / sample_and_log_prob are compared element by element with unbatched calls on the NumPy-broadcast slices, using distributions that depend injectively on every entry of x and the condition; samples must use independent randomness and pair with their own log-prob.",
            "Axis sizes >= 1.", "DESIGN.md section 3 C06"),
    "C07": ("exhaustive enumeration of leaf constructor arguments x parameter levels x boundary-directed inputs against independent NumPy formulas",
            "Each elementary bijection (all broadcast pairings, both triangles, every permutation of every shape with <= 4 elements (thorough: all of S_6), spline knots/interval/min_derivative grid, planar dims/activations) is compared value by value with float64 NumPy formulas written from the documentation and the cited papers, including knots, interval ends and a 2001-point lattice; planar slopes up to 3, constructor scales 1e-6...1e6 in both dtypes, and a TriangularAffine whose ignored triangle holds NaN / inf are included.",
            "Parameters read through documented attributes after unwrap.", "DESIGN.md section 3 C07"),
    "C09": ("complete enumeration of the architecture grid x weight assignments written into the raw trainable arrays; exact-zero / strict-sign inspection of autodiff Jacobians",
            "Every (dim, cond_dim, width, depth, parameters-per-dimension / block size) of the grid for MaskedAutoregressive, Coupling and BlockAutoregressiveNetwork is built and its Jacobian w.r.t. x and the condition inspected under the initial, all-positive, mixed-sign (1 and 50) and dense raw-weight assignments: forbidden dependencies must be exact zeros, permitted ones non-zero when width >= dim; mask helpers are compared with patterns written from their docstrings for all small sizes; MaskedAutoregressive connectivity is checked for every width dim..2dim+1 up to dim 6 and widths {dim, dim+1, 50} up to dim 20.",
            "Exact-zero tests rely on masked weights being exact zeros.", "DESIGN.md section 3 C09"),
    "C11": ("full product grid V^k of raw parameter values evaluated through unwrap (vmap), constructor round trips, invalid-argument probes",
            "Every raw leaf behind a constraint (scale, triangular diagonal, df, mixture weights, spline widths/heights/derivatives, planar (w,u,b), weight-norm scale and weights, min-scale transformer, BNAF block weights) is set to every combination of {-50,-5,-0.5,0,0.5,5,50} (also on top of a perturbed state, both dtypes) and the constrained value inspected; constructor arguments from 1e-6 to 1e6 must round-trip; arguments outside the constraint must be rejected; for the flows' min-scale transformer every array the conditioner parameterises is swept.",
            "Raw box |raw| <= 50; two recorded known findings (known_findings.json).", "DESIGN.md section 3 C11"),
    "C12": ("exhaustive enumeration of wrapper nestings (depth 3, 0-2 vmap levels, containers), of frozen subsets of every model, and of (model, frozen subset, loop, optimiser, steps) training histories",
            "All 156 nestings of the five wrapper kinds are unwrapped inside four container kinds and under 1-2 levels of filter_vmap and compared with a leaf-by-leaf NumPy reference (incl. a deliberately non-broadcast-safe Lambda); for 9 models every subset (<= 6 leaves) or single/complement subsets are frozen and gradients inspected (exact zeros on frozen leaves); both training loops are run with sgd/adam/adamw/a hostile +1 optimiser and frozen and non-floating leaves must be bit-identical afterwards; whole sub-trees frozen with NonTrainable (eager, filter_jit, both loops), the frozen child of every combinator kind, floating NumPy leaves under non_trainable, and every depth-1 combinator constructor handed children with frozen leaves (markers must survive construction) are included.",
            "Hostile optimiser only sees what the loops hand it.", "DESIGN.md section 3 C12"),
    "C13": ("exhaustive probing over a 40-shape lattice of malformed x / condition shapes for every expression and class, plus every ill-shaped constructor application",
            "Every enumerated expression and (by reflection) every concrete bijection class is called on all four methods with each of the 40 lattice shapes different from the declared one for x and for the condition (and a missing condition): every call must raise; well-formed calls must return exactly the declared shape and a () log-det; distributions must reject mismatching trailing dimensions; ~15k ill-shaped constructor applications must be rejected (incl. the full lattice of boolean masks that do not match the leading dimensions and integer indices out of range); malformed inputs are also presented as int32 / bool / float16 / NumPy arrays and bare Python ints; every conditional expression is also called from inside an EmbedCondition whose network returns each wrong lattice shape.",
            "Any exception counts as rejection.", "DESIGN.md section 3 C13"),
    "C14": ("exhaustive enumeration of models x methods x program transformations (filter_jit, re-used jit, vmap, repeat, flatten/unflatten, serialise round trip)",
            "Every leaf class and every (combinator, option) pair, all named distributions and factory flows: each method is run eagerly, under eqx.filter_jit of the bound method, through one jitted function re-used with different parameter values, under jax.vmap (over x and over (x, condition)) vs a Python loop, twice, after flatten/unflatten and after tree_serialise_leaves into a freshly built model with different constructor arguments and parameters; the last three must be bit-identical.",
            "jit/vmap vs eager to 1e-8 relative.", "DESIGN.md section 3 C14"),
    "C17": ("exhaustive enumeration of batch sizes, n_contrastive, num_samples, keys and models with gradient read-out of the rows used",
            "MaximumLikelihoodLoss and ElboLoss values are compared with their defining formulas over public log_prob / sample_and_log_prob for every batch size 2-7, num_samples {1,3,16} and 3 keys; the stick-the-landing gradient must equal the path derivative computed with two model copies (and differ from the total derivative); ContrastiveLoss is driven with a look-up-table distribution whose gradient at zero reads out exactly which rows were used, for every n_contrastive in 1..batch-1; the likelihood loss is also evaluated on batches of 255...4097 rows, and one ContrastiveLoss object is called on batches of decreasing and increasing size.",
            "Look-up-table distribution is a user-defined AbstractDistribution.", "DESIGN.md section 3 C17"),
    "C18": ("exhaustive grammar exploration of Transformed(base, expression) with log_prob, d/dx and d/dparams evaluated on the boundary-directed alphabet",
            "For every leaf in both orientations, compositions up to the depth bound and every factory, at parameter levels init and perturbed and in float64/float32, log_prob and its gradients w.r.t. the input and every trainable parameter are evaluated at every constant the formulas compare against, both float neighbours and magnitudes to 1e4: log_prob must never be NaN and all gradients finite wherever it is finite; the ten named families alone and as two-component mixtures (component separations 1...1e4, ordinary and extreme weight ratios) are included.",
            GRAMMAR_NOTE + " Overflow regime (|log_prob| > 1e30 / 1e8) not judged; no gradient where log_prob needs the numeric inverse.", "DESIGN.md section 3 C18"),
})

PENDING_REASON = "check not built yet in this revision (work in progress; see DESIGN.md section 3 for the planned bounded-exhaustive check)"


def main():
    props = [json.loads(l)["id"] for l in open(os.path.join(ROOT, "properties.jsonl"))]
    checks = []
    for pid in props:
        if pid not in CHECKS:
            continue
        tech, text, note, ref = CHECKS[pid]
        checks.append(
            {
                "property_id": pid,
                "quick_cmd": f"{PY} -m mc.run {pid} --tier quick",
                "thorough_cmd": f"{PY} -m mc.run {pid} --tier thorough",
                "evidence_file": f"/verif/evidence/{pid}.json",
                "replay_cmd_template": f"{PY} -m mc.run {pid} --replay {{path}}",
                "engine": "mc-explorer",
                "level_claimed": {"category": "model_checking", "text": text, "design_ref": ref},
                "level_note": note,
                "technique": tech,
            }
        )
    man = {
        "version": 1,
        "setup_cmd": f"{PY} -m mc.setup_check",
        "hooks": {
            "guard": "FLOWJAX_VERIF",
            "enable": "no source hooks: all observations go through public extension points (loss_fn, optimizer, user functions); the guard name is reserved and unused",
            "baseline_off_cmd": "cd /repo && /venv/bin/python -m pytest -ra -q -p no:cacheprovider --timeout=900 --continue-on-collection-errors",
            "source_commits": [],
            "add_only": True,
        },
        "engines": [
            {
                "name": "mc-explorer",
                "path": "/verif/mc",
                "serves_properties": [c["property_id"] for c in checks],
                "kind_free_text": "hand-written explicit-state / bounded-exhaustive explorer driving the real flowjax code in a 16-process pool (states = canonical case records, transitions = real-code operations judged by an independent oracle); TLC for the C16 protocol models with full trace replay",
            }
        ],
        "checks": checks,
        "not_applicable": [{"property_id": p, "reason": PENDING_REASON} for p in props if p not in CHECKS],
        "notes": "flowjax is installed editable from /repo in /venv, so every check runs /repo's current working tree with no rebuild. Genuine defects repaired by fix: commits are listed in known_findings.json.",
    }
    with open(os.path.join(ROOT, "MANIFEST.json"), "w") as f:
        json.dump(man, f, indent=1)
    print("MANIFEST.json:", len(checks), "checks,", len(man["not_applicable"]), "not_applicable")


if __name__ == "__main__":
    main()
