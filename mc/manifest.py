"""Regenerates /verif/MANIFEST.json from the table below (python3 mc/manifest.py)."""
import json
import os

ROOT = os.path.dirname(os.path.dirname(os.path.abspath(__file__)))
PY = "/venv/bin/python"

# id -> (technique, level text, level note, design ref)
CHECKS = {
    "C16": (
        "explicit-state enumeration of all loss orderings on the real loops + TLC-verified TLA+ models with every maximal path replayed on the implementation",
        "Every permutation of distinct losses up to length L (quick 4, thorough 6), every max_patience, return_best and 1-3 batches per epoch is run through the real fit_to_data / fit_to_variational_target with a scripted loss and counting optimiser and compared with a reference of the documented behaviour; independently TLC verifies the protocol invariants on models/EarlyStop.tla and models/VarFit.tla and all maximal paths of the dumped state graph are replayed against the real loops.",
        "Loss values distinct; bounded history length; optimiser/loss are user-supplied extension points (no source hooks); TLC trusted.",
        "DESIGN.md section 3 C16, section 4",
    ),
}

GRAMMAR_NOTE = "Bounded: grammar depth/leaf sets, parameter levels and alphabets listed in evidence.coverage.bounds; float tolerances are derived (DESIGN 2.5) not proved; JAX autodiff trusted as Jacobian oracle."
CHECKS.update({
    "C01": (
        "bounded-exhaustive enumeration of a typed grammar of bijection expressions (BFS by depth, canonical-form dedup) x parameter levels x boundary-directed input alphabet, executed on the real objects",
        "Every well-typed expression tree up to the depth bound (quick: 20 representative leaves, depth<=2, ~1.5k trees; thorough: all leaf configurations, depth<=3, ~15k trees), plus the bijection of every flow factory, is built for real and round-tripped in both directions (domain->codomain->domain, codomain->domain->codomain, image points) at every parameter level, condition and alphabet input (interval ends, knots, +-max_val, their float neighbours, magnitudes to 1e4), with conditioning-scaled tolerances from the autodiff Jacobian; plain and and-log-det points are compared.",
        GRAMMAR_NOTE, "DESIGN.md section 3 C01"),
    "C02": (
        "same exhaustive grammar exploration; oracle = slogdet of the autodiff Jacobian of the plain method (one-sided set at kinks)",
        "For every enumerated expression, non-initial parameter level, condition and alphabet input the reported forward and inverse log-determinants are compared with slogdet(jacfwd(plain transform / inverse)), an oracle sharing nothing with the hand-written formulas; scalar shape of the log-det is checked.",
        GRAMMAR_NOTE + " Saturated points (singular value < 1e-5) are skipped and counted.", "DESIGN.md section 3 C02"),
    "C08": (
        "exhaustive grammar exploration against a reference interpreter of the combinator definitions",
        "Every combinator expression up to the depth bound, with every valid axis (negative included), every Partial index kind and mixed conditional/unconditional children, is compared method by method (4 methods + log-det) with a ~150-line interpreter that implements Chain/Scan/Vmap/Concatenate/Stack/Partial/Invert/Reshape/EmbedCondition by their definitions in NumPy over the children's own methods; declared shape/cond_shape are compared with NumPy's shape calculus; merge_chains, indexing, slicing and iteration must not change the function.",
        GRAMMAR_NOTE, "DESIGN.md section 3 C08"),
    "C10": (
        "explicit enumeration of the bisection state machine's inputs (function family x root position x interval x tol x max_iter x dtype) on the real inverter, plus a traced leg under jax.disable_jit recording every evaluation point",
        "All ~77k combinations of 6 increasing function shapes, 3 slopes, 13 root positions (inside, on either end, one ulp outside, 3/pi widths and 1e6 away on both sides, exact-midpoint and dyadic), 4 initial intervals, 8 tolerances, 5 max_iter values and 2 dtypes are solved by the real AutoregressiveBisectionInverter and judged against the outcome-level error bound; 1200 searches run un-jitted with the while_loops as Python loops and an evaluation horizon; triangular maps of dimension 1-6 with coupling and real BlockAutoregressiveNetworks are inverted end to end with the propagated bound.",
        "Function family and bounds as listed in evidence; error bound assumes a doubling expansion (factor-2 slack).", "DESIGN.md section 3 C10"),
    "C15": (
        "exhaustive enumeration of (n, batch_size, val_prop, condition, epochs) with the complete call history of the real fit_to_data observed through the user-supplied loss and optimiser",
        "Every dataset size n (quick 2..20, thorough 2..60), every batch_size 1..n+5, 7 validation proportions, with/without condition, 1-4 epochs is run through the real fit_to_data on index-tagged rows; the recorded history of every loss call (rows, condition rows, key, train/validation, update marks) is judged: partition, pairing, no duplicates, only a trailing remainder dropped, no validation row in a gradient step, fresh keys, reproducibility.",
        "Split sizes read from train_val_split and only required to be sane; a traced loss call is a training step.", "DESIGN.md section 3 C15"),
})

PENDING_REASON = "check not built yet in this revision (work in progress; see DESIGN.md section 3 for the planned bounded-exhaustive check)"


def main():
    props = [json.loads(l)["id"] for l in open(os.path.join(ROOT, "properties.jsonl"))]
    checks = []
    for pid in props:
        if pid not in CHECKS:
            continue
        tech, text, note, ref = CHECKS[pid]
        checks.append(
            {
                "property_id": pid,
                "quick_cmd": f"{PY} -m mc.run {pid} --tier quick",
                "thorough_cmd": f"{PY} -m mc.run {pid} --tier thorough",
                "evidence_file": f"/verif/evidence/{pid}.json",
                "replay_cmd_template": f"{PY} -m mc.run {pid} --replay {{path}}",
                "engine": "mc-explorer",
                "level_claimed": {"category": "model_checking", "text": text, "design_ref": ref},
                "level_note": note,
                "technique": tech,
            }
        )
    man = {
        "version": 1,
        "setup_cmd": f"{PY} -m mc.setup_check",
        "hooks": {
            "guard": "FLOWJAX_VERIF",
            "enable": "no source hooks: all observations go through public extension points (loss_fn, optimizer, user functions); the guard name is reserved and unused",
            "baseline_off_cmd": "cd /repo && /venv/bin/python -m pytest -ra -q -p no:cacheprovider --timeout=900 --continue-on-collection-errors",
            "source_commits": [],
            "add_only": True,
        },
        "engines": [
            {
                "name": "mc-explorer",
                "path": "/verif/mc",
                "serves_properties": [c["property_id"] for c in checks],
                "kind_free_text": "hand-written explicit-state / bounded-exhaustive explorer driving the real flowjax code in a 16-process pool (states = canonical case records, transitions = real-code operations judged by an independent oracle); TLC for the C16 protocol models with full trace replay",
            }
        ],
        "checks": checks,
        "not_applicable": [{"property_id": p, "reason": PENDING_REASON} for p in props if p not in CHECKS],
        "notes": "flowjax is installed editable from /repo in /venv, so every check runs /repo's current working tree with no rebuild. Genuine defects repaired by fix: commits are listed in known_findings.json.",
    }
    with open(os.path.join(ROOT, "MANIFEST.json"), "w") as f:
        json.dump(man, f, indent=1)
    print("MANIFEST.json:", len(checks), "checks,", len(man["not_applicable"]), "not_applicable")


if __name__ == "__main__":
    main()
