"""Regenerates /verif/MANIFEST.json from the table below (python3 mc/manifest.py)."""
import json
import os

ROOT = os.path.dirname(os.path.dirname(os.path.abspath(__file__)))
PY = "/venv/bin/python"

# id -> (technique, level text, level note, design ref)
CHECKS = {
    "C16": (
        "explicit-state enumeration of all loss orderings on the real loops + TLC-verified TLA+ models with every maximal path replayed on the implementation",
        "Every permutation of distinct losses up to length L (quick 4, thorough 6), every max_patience, return_best and 1-3 batches per epoch is run through the real fit_to_data / fit_to_variational_target with a scripted loss and counting optimiser and compared with a reference of the documented behaviour; independently TLC verifies the protocol invariants on models/EarlyStop.tla and models/VarFit.tla and all maximal paths of the dumped state graph are replayed against the real loops.",
        "Loss values distinct; bounded history length; optimiser/loss are user-supplied extension points (no source hooks); TLC trusted.",
        "DESIGN.md section 3 C16, section 4",
    ),
}

PENDING_REASON = "check not built yet in this revision (work in progress; see DESIGN.md section 3 for the planned bounded-exhaustive check)"


def main():
    props = [json.loads(l)["id"] for l in open(os.path.join(ROOT, "properties.jsonl"))]
    checks = []
    for pid in props:
        if pid not in CHECKS:
            continue
        tech, text, note, ref = CHECKS[pid]
        checks.append(
            {
                "property_id": pid,
                "quick_cmd": f"{PY} -m mc.run {pid} --tier quick",
                "thorough_cmd": f"{PY} -m mc.run {pid} --tier thorough",
                "evidence_file": f"/verif/evidence/{pid}.json",
                "replay_cmd_template": f"{PY} -m mc.run {pid} --replay {{path}}",
                "engine": "mc-explorer",
                "level_claimed": {"category": "model_checking", "text": text, "design_ref": ref},
                "level_note": note,
                "technique": tech,
            }
        )
    man = {
        "version": 1,
        "setup_cmd": f"{PY} -m mc.setup_check",
        "hooks": {
            "guard": "FLOWJAX_VERIF",
            "enable": "no source hooks: all observations go through public extension points (loss_fn, optimizer, user functions); the guard name is reserved and unused",
            "baseline_off_cmd": "cd /repo && /venv/bin/python -m pytest -ra -q -p no:cacheprovider --timeout=900 --continue-on-collection-errors",
            "source_commits": [],
            "add_only": True,
        },
        "engines": [
            {
                "name": "mc-explorer",
                "path": "/verif/mc",
                "serves_properties": [c["property_id"] for c in checks],
                "kind_free_text": "hand-written explicit-state / bounded-exhaustive explorer driving the real flowjax code in a 16-process pool (states = canonical case records, transitions = real-code operations judged by an independent oracle); TLC for the C16 protocol models with full trace replay",
            }
        ],
        "checks": checks,
        "not_applicable": [{"property_id": p, "reason": PENDING_REASON} for p in props if p not in CHECKS],
        "notes": "flowjax is installed editable from /repo in /venv, so every check runs /repo's current working tree with no rebuild. Genuine defects repaired by fix: commits are listed in known_findings.json.",
    }
    with open(os.path.join(ROOT, "MANIFEST.json"), "w") as f:
        json.dump(man, f, indent=1)
    print("MANIFEST.json:", len(checks), "checks,", len(man["not_applicable"]), "not_applicable")


if __name__ == "__main__":
    main()
